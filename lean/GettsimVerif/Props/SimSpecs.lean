import GettsimVerif.Lemmas.SimSpecs
/-!
Table-level specifications of `compute_taxes_and_transfers` (`GV.Simulate.simulate`): what the
RESULT TABLE of a successful call contains for each kind of target, in terms of the other result
columns of the same call (and of the data columns).

* §0 `simulate_node_unfold`  – the column of a target is the rendering of ONE application of the
  target's node operation to the values of its free arguments (one step of `Dag.eval`);
* §1 `simulate_time_variant` – C13: a requested time-unit variant is pointwise the fixed multiple of
  the requested source column;
* §2 `simulate_group_sum…`   – C11: a requested automatic group sum contains, in every row, the sum of
  the requested source column over the rows of the same group;
* §3 `simulate_rule_rows`    – C03: every entry of a rule's column is the rule applied to that row's
  inputs;
* §4 `simulate_rounded_on_grid`, `simulate_rounding_switch` – C10: rounded columns lie on the grid,
  and the switch `rounding=False` returns the unrounded column of which the rounded one is `roundTo`.

Vocabulary (`Lemmas/SimSpecs.lean`, `Lemmas/SimOverride.lean`, `Lemmas/SimTargets.lean`):
* `sp_prep inp`      : the preparation stage of the call (`prepare` on the components of `inp`);
  `pr.fns` = the functions that are not overridden by data, `pr.data` = the converted data columns;
* `ov_value inp x`   : the value (a typed column `Col`, BEFORE rendering) of node `x` in the run;
* `sp_nRows pr`      : the number of rows of the result frame (length of the first data column);
* `render n c`       : the reported column (0-d results are broadcast to `n` rows);
* `nodeLazy params f`: the DAG node of function `f` (rounding spec looked up on demand).
-/
namespace GV.Simulate
open GV.Lang (Val FunDef)
open GV.VecDtype (R DT numOf dtypeOf)
open GV.TimeConv (TUnit)
open GV.Yaml (Y Key)

/-! ## §0 one step of the evaluation -/

/-- **The workhorse: the column of a target is one application of its node operation.** If the call
succeeds and `t` is a requested target, then `t` is a function `f` of the prepared function set
(not overridden by data), it has a value `v`, the reported column is the rendering of `v`, and
`v = op(args)` where `op` is the node operation of `f` and `args` are the values — in the same run
— of the free arguments of `f` (its arguments minus the partialled `<g>_params`), each of which is
either a data column of the converted data or the value of another function. -/
theorem simulate_node_unfold (inp : Input) (tbl : Table) (t : String)
    (h : simulate inp = .ok tbl) (ht : t ∈ inp.targets) :
    ∃ pr v f args, sp_prep inp = .ok pr ∧ ov_value inp t = .ok v ∧
      find? tbl t = some (render (sp_nRows pr) v) ∧
      Dag.find? pr.data t = none ∧ findFn? pr.fns t = some f ∧
      List.Forall₂ (fun a c => ov_value inp a = .ok c ∧
          (Dag.find? pr.data a = some c ∨
            (Dag.find? pr.data a = none ∧ (findFn? pr.fns a).isSome = true)))
        (freeArgs inp.params f) args ∧
      (nodeLazy inp.params f).op args = .ok v :=
  sp_target_unfold h ht

/-- **… and the arguments that are requested themselves are the other result columns.** If the
free argument `a` of a target is itself a requested target, the value that enters the node
operation is the value whose rendering is the column of `a` in the same table. -/
theorem simulate_arg_column (inp : Input) (tbl : Table) (a : String) (c : Col) (pr : Prep)
    (h : simulate inp = .ok tbl) (hpr : sp_prep inp = .ok pr) (ha : a ∈ inp.targets)
    (hc : ov_value inp a = .ok c) : find? tbl a = some (render (sp_nRows pr) c) :=
  sp_col_of_value h hpr ha hc

/-! ## §1 C13 at table level -/

/-- **Time-unit variants differ by the fixed factor, in the result table.** Let the call succeed,
let the targets contain `a` and `b`, where `b` is a time-conversion function derived from `a`
(`f.kind = .timeConv a u v`, e.g. `a = x_m`, `b = x_y`), and let the reported column of `a` be a
float column (`qs.map Val.flt`). Then the reported column of `b` is pointwise `conv u v` of the
column of `a`, i.e. the column of `a` times `perYear u / perYear v` (`x_y = 12 · x_m`,
`x_w = x_y · 7/365.25`, …). Scalars (rules that depend on parameters only) are covered: both
columns are broadcast. The float hypothesis is necessary: `m_to_y` keeps integer dtypes (an int
column times 12 stays int, see `C13SimExamples`). -/
theorem simulate_time_variant (inp : Input) (tbl : Table) (a b : String) (u v : TUnit) (pr : Prep) (f : Fn)
    (qs : List Rat) (h : simulate inp = .ok tbl) (ha : a ∈ inp.targets) (hb : b ∈ inp.targets)
    (hpr : sp_prep inp = .ok pr) (hf : findFn? pr.fns b = some f) (hk : f.kind = .timeConv a u v)
    (hca : find? tbl a = some (qs.map Val.flt)) :
    find? tbl b = some (qs.map fun q => Val.flt (TimeConv.conv u v q)) ∧
    find? tbl b = some (qs.map fun q => Val.flt (q * (TimeConv.perYear u / TimeConv.perYear v))) := by
  have key : find? tbl b = some (qs.map fun q => Val.flt (TimeConv.conv u v q)) := by
    obtain ⟨pr', vb, f', args, hpr', hvb, hcb, _, hf', hargs, hop⟩ := simulate_node_unfold inp tbl b h hb
    rw [hpr] at hpr'; cases hpr'
    rw [hf] at hf'; cases hf'
    have hop' : timeConvOp u v args = .ok vb := by
      rw [← (nodeOf_ops inp.params _ f).1 a u v hk]; exact hop
    obtain ⟨c, rfl⟩ := sp_timeConvOp_args hop'
    -- the single argument is `a`
    have hargs_a : f.args = [a] := (sp_prepare_kinds hpr f (findFn?_some hf).1).1 a u v hk
    cases hfree : freeArgs inp.params f with
    | nil => rw [hfree] at hargs; cases hargs
    | cons a' rest =>
      rw [hfree] at hargs
      cases hargs with
      | cons hac hrest =>
        have ha' : a' ∈ f.args := mi_freeArgs_sub inp.params f a' (by rw [hfree]; exact List.mem_cons_self)
        rw [hargs_a, List.mem_singleton] at ha'
        subst ha'
        have hca' := sp_col_of_value h hpr ha hac.1
        rw [hca, sp_render_eq] at hca'
        have hq := sp_map_rToVal_flt _ _ (Option.some.inj hca').symm
        have htyped : ov_Typed c := by
          have := hac.1
          rw [sp_value_eq hpr] at this
          exact ov_eval_typed hpr inp.params _ _ c this
        rw [hcb, sp_render_eq, sp_timeConv_expand htyped hop' hq, List.map_map]
        rfl
  refine ⟨key, ?_⟩
  rw [key]
  simp only [TimeConv.conv_eq_mul]

/-! ## §2 C11 at table level -/

/-- **A requested automatic group sum is the sum of the requested source column over the group
(float source).** Let the call succeed, let the targets contain `s` and `x`, where `x` is the group
sum of `s` by the id column `gid` (`f.kind = .groupAgg .sum (some s) gid`, e.g. the automatic
`x = s ++ "_hh"`, `gid = "hh_id"`), let `gid` be a DATA column (`g` = the converted column, `g.ints`
its ids), all data columns having the same length, and let the reported column of `s` be a float
column `qs`. Then the entry of `x` in a row with id `k` is the sum of the entries of `s` over the
rows whose id is `k` (`Agg.members g.ints qs k` = the entries `qs[j]` with `g.ints[j] = k`, in row
order): the column of `x` is `g.ints.map fun k => (members g.ints qs k).sum`. Nothing else enters;
that the ids are non-negative ints and the lengths match follows from the success of the call. A
scalar source (a rule depending on parameters only) is covered: it is broadcast in both places. -/
theorem simulate_group_sum (inp : Input) (tbl : Table) (s x gid : String) (pr : Prep) (f : Fn) (g : Col)
    (qs : List Rat) (h : simulate inp = .ok tbl) (hs : s ∈ inp.targets) (hx : x ∈ inp.targets)
    (hpr : sp_prep inp = .ok pr) (hf : findFn? pr.fns x = some f)
    (hk : f.kind = .groupAgg .sum (some s) gid) (hg : Dag.find? pr.data gid = some g)
    (hlen : ∀ c ∈ inp.data, c.2.length = nRowsOf inp)
    (hcs : find? tbl s = some (qs.map Val.flt)) :
    find? tbl x = some (g.ints.map fun k => Val.flt (Agg.members g.ints qs k).sum) := by
  obtain ⟨col, dt, _, htyped, hcs', hl, hdt, hcx⟩ := sp_group_sum_core h hs hx hpr hf hk hg hlen
  rw [hcs] at hcs'
  have hq := sp_map_rToVal_flt _ _ (Option.some.inj hcs').symm
  rw [hcx, hq]
  congr 1
  apply List.map_congr_left
  intro k hk
  have hdtf : dt = .float := by
    cases qs with
    | nil =>
      rw [hq] at hl
      simp only [List.map_nil, List.length_nil] at hl
      rw [List.eq_nil_of_length_eq_zero hl.symm] at hk
      cases hk
    | cons q qs =>
      have := sp_dt_of_expand htyped hq (by intro hd; cases hd)
      rw [hdt, this]
      rfl
  rw [hdtf, List.map_map]
  have : (numOf ∘ R.f) = id := rfl
  rw [this, List.map_id]
  rfl

/-- **… the same for an int source**: the group sum of an int column is the int column of the
sums of the members (`numpy` keeps `int64`). -/
theorem simulate_group_sum_int (inp : Input) (tbl : Table) (s x gid : String) (pr : Prep) (f : Fn) (g : Col)
    (ks : List Int) (h : simulate inp = .ok tbl) (hs : s ∈ inp.targets) (hx : x ∈ inp.targets)
    (hpr : sp_prep inp = .ok pr) (hf : findFn? pr.fns x = some f)
    (hk : f.kind = .groupAgg .sum (some s) gid) (hg : Dag.find? pr.data gid = some g)
    (hlen : ∀ c ∈ inp.data, c.2.length = nRowsOf inp)
    (hcs : find? tbl s = some (ks.map Val.int)) :
    find? tbl x = some (g.ints.map fun k => Val.int (Agg.members g.ints ks k).sum) := by
  obtain ⟨col, dt, _, htyped, hcs', hl, hdt, hcx⟩ := sp_group_sum_core h hs hx hpr hf hk hg hlen
  rw [hcs] at hcs'
  have hq := sp_map_rToVal_int _ _ (Option.some.inj hcs').symm
  rw [hcx, hq]
  congr 1
  apply List.map_congr_left
  intro k hk
  have hdtf : dt = .int := by
    cases ks with
    | nil =>
      rw [hq] at hl
      simp only [List.map_nil, List.length_nil] at hl
      rw [List.eq_nil_of_length_eq_zero hl.symm] at hk
      cases hk
    | cons q qs =>
      have := sp_dt_of_expand htyped hq (by intro hd; cases hd)
      rw [hdt, this]
      rfl
  rw [hdtf, List.map_map]
  have : (numOf ∘ R.i) = (Int.cast : Int → Rat) := rfl
  rw [this, Agg.members_map, sp_sum_cast]
  simp only [sp_ofRat, ratToInt, Rat.floor_intCast, rToVal]

/-- **… and for a bool source the group sum COUNTS the `True`s** (the result is an int column:
`numpy` sums Booleans as integers), provided the value of the source is not a scalar (`hsh`; a
0-d Boolean result is broadcast in the table, and the model does not exclude an empty 0-d value,
whose rendering could not be told from a column of `False`). -/
theorem simulate_group_sum_bool (inp : Input) (tbl : Table) (s x gid : String) (pr : Prep) (f : Fn) (g : Col)
    (bs : List Bool) (h : simulate inp = .ok tbl) (hs : s ∈ inp.targets) (hx : x ∈ inp.targets)
    (hpr : sp_prep inp = .ok pr) (hf : findFn? pr.fns x = some f)
    (hk : f.kind = .groupAgg .sum (some s) gid) (hg : Dag.find? pr.data gid = some g)
    (hlen : ∀ c ∈ inp.data, c.2.length = nRowsOf inp)
    (hsh : ∀ c, ov_value inp s = .ok c → c.shape = .arr)
    (hcs : find? tbl s = some (bs.map Val.bool)) :
    find? tbl x = some (g.ints.map fun k =>
      Val.int (((Agg.members g.ints bs k).filter id).length : Int)) := by
  obtain ⟨col, dt, hcol, htyped, hcs', hl, hdt, hcx⟩ := sp_group_sum_core h hs hx hpr hf hk hg hlen
  rw [hcs] at hcs'
  have hq := sp_map_rToVal_bool _ _ (Option.some.inj hcs').symm
  rw [hcx, hq]
  congr 1
  apply List.map_congr_left
  intro k hk
  have hdtf : dt = .int := by
    cases bs with
    | nil =>
      rw [hq] at hl
      simp only [List.map_nil, List.length_nil] at hl
      rw [List.eq_nil_of_length_eq_zero hl.symm] at hk
      cases hk
    | cons q qs =>
      have hv : col.vals = (q :: qs).map R.b := by
        have : col.scalar = false := by simp [Col.scalar, hsh col hcol]
        simpa [sp_expand, this] using hq
      have : col.dt = .bool := (htyped (R.b q) (by rw [hv]; exact List.mem_cons_self)).symm
      rw [hdt, this]
      rfl
  rw [hdtf, List.map_map, Agg.members_map, sp_sum_bools]
  simp only [sp_ofRat, ratToInt, Rat.floor_intCast, rToVal]

/-! ## §3 C03 at table level -/

/-- **Each value of a rule's column is the rule applied to THAT row's inputs.** Let the call
succeed and let the requested target `t` be a rule with declared return type `ty`, at least one
parameter, and no rounding (`f.kind = .rule fn (some ty) none`: no `params_key_for_rounding`, or
`rounding=False`), with at least one free (non-`_params`) argument, all of whose free arguments have
non-scalar values (`hshape`; data columns always do, see `simulate_rule_rows_arg`). Then the
arguments have values `cols`, all with the same number `n` of rows, the reported column of `t` has
`n` entries, and its entry in row `i` is `cast ty (fn(args_i))`, where `args_i = rowArgs … i …` are
the `i`-th entries of the argument values (`<g>_params` arguments replaced by `params[g]`) — and
nothing else: no other row enters. (Stated with the argument VALUES `ov_value inp a = .ok c`;
`simulate_rule_rows_arg` reads their `i`-th entries off the result table / the data.) -/
theorem simulate_rule_rows (inp : Input) (tbl : Table) (t : String) (pr : Prep) (f : Fn) (fn : FunDef)
    (ty : Ty) (h : simulate inp = .ok tbl) (ht : t ∈ inp.targets) (hpr : sp_prep inp = .ok pr)
    (hf : findFn? pr.fns t = some f) (hk : f.kind = .rule fn (some ty) none) (hargs : fn.args ≠ [])
    (hfree : freeArgs inp.params f ≠ [])
    (hshape : ∀ a ∈ freeArgs inp.params f, ∀ c, ov_value inp a = .ok c → c.shape = .arr) :
    ∃ cols col n, List.Forall₂ (fun a c => ov_value inp a = .ok c) (freeArgs inp.params f) cols ∧
      find? tbl t = some col ∧ col.length = n ∧ (∀ c ∈ cols, c.vals.length = n) ∧
      ∀ i, i < n → ∃ v r,
        Lang.runFun fn (rowArgs inp.params (freeArgs inp.params f) i fn.args cols) = .ok v ∧
        valToR v = some r ∧ col[i]? = some (rToVal (VecDtype.cast ty.toDT r)) := by
  obtain ⟨v, cols, _, hcol, hcols, hop⟩ := sp_target_unfold' h ht hpr hf
  rw [sp_nodeLazy_rule hk, sp_lazySpec_unkeyed hk] at hop
  have hne : cols ≠ [] := by
    intro hnil
    have := hcols.length_eq
    rw [hnil] at this
    exact hfree (List.eq_nil_of_length_eq_zero this)
  have hsh : ∀ c ∈ cols, c.shape = .arr := by
    intro c hc
    obtain ⟨a, ha, hac⟩ := sp_forall₂_mem_right hcols c hc
    exact hshape a ha c hac
  obtain ⟨n, hn, hlen, hrows⟩ := sp_rule_rows (sp_nRows pr) hargs hne hsh hop
  exact ⟨cols, _, n, hcols, hcol, hlen, hn, hrows⟩

/-- **… where the inputs of row `i` are the `i`-th entries of the result columns / of the data.**
For a non-scalar argument value `c` of name `a` and a row `i`: the entry `c.at i` that enters
`rowArgs` is (as a reported value, `rToVal`) the `i`-th entry of the column of `a` in the SAME
result table if `a` is requested; and if `a` is a data column, `c` is the converted data column,
which is always non-scalar. -/
theorem simulate_rule_rows_arg (inp : Input) (tbl : Table) (a : String) (pr : Prep) (c : Col)
    (h : simulate inp = .ok tbl) (hpr : sp_prep inp = .ok pr) (hc : ov_value inp a = .ok c) :
    (a ∈ inp.targets → c.shape = .arr → ∀ i, i < c.vals.length →
      ∃ col, find? tbl a = some col ∧ col[i]? = some (rToVal (c.at i))) ∧
    (∀ d, Dag.find? pr.data a = some d → c = d ∧ c.shape = .arr) := by
  refine ⟨?_, ?_⟩
  · intro ha hs i hi
    exact ⟨_, sp_col_of_value h hpr ha hc, sp_render_at hs hi⟩
  · intro d hd
    have := sp_value_data hpr hc hd
    subst this
    exact ⟨rfl, sp_prepare_data_arr hpr (a, c) (Dag.find?_mem _ _ _ hd)⟩

/-! ## §4 C10 at table level -/

/-- **A rounded column lies on the grid.** Let the call succeed and let the requested target `t`
be a rule with a rounding key (`f.kind = .rule fn ret (some key)`: `params_key_for_rounding = key`
and the switch `rounding` is on — with `rounding=False` the kind carries no key), whose
specification `params[key]["rounding"][t]` exists (`roundingSpecOf … = .ok s`) and is well-formed
with base `b ≠ 0`, direction `dir`, offset `off` (`SpecIs`). Then EVERY entry of the reported
column of `t` is a float of the form `b·k + off` with an integer `k`. (Also for scalar results,
which are broadcast; whatever the return annotation of the rule is, the column is float.) -/
theorem simulate_rounded_on_grid (inp : Input) (tbl : Table) (t key : String) (pr : Prep) (f : Fn)
    (fn : FunDef) (ret : Option Ty) (s : RSpec) (b off : Rat) (dir : Round.Dir)
    (h : simulate inp = .ok tbl) (ht : t ∈ inp.targets) (hpr : sp_prep inp = .ok pr)
    (hf : findFn? pr.fns t = some f) (hk : f.kind = .rule fn ret (some key))
    (hspec : roundingSpecOf inp.params key t = .ok s) (hs : SpecIs s b dir off) :
    ∃ col, find? tbl t = some col ∧ ∀ x ∈ col, ∃ k : Int, x = Val.flt (b * (k : Rat) + off) := by
  obtain ⟨v, args, _, hcol, _, hop⟩ := sp_target_unfold' h ht hpr hf
  have hname : f.name = t := (findFn?_some hf).2
  rw [sp_nodeLazy_rule hk, sp_lazySpec_keyed hk (by rw [hname]; exact hspec)] at hop
  obtain ⟨raw, _, hexp⟩ := sp_rounded_expand (sp_nRows pr) hop hs
  refine ⟨_, hcol, ?_⟩
  intro x hx
  rw [sp_render_eq, hexp, List.map_map] at hx
  obtain ⟨r, _, rfl⟩ := List.mem_map.1 hx
  obtain ⟨k, hk⟩ := Round.roundTo_on_grid b off (numOf r) dir
  refine ⟨k, ?_⟩
  simp only [Function.comp, rToVal]
  congr 1
  linarith

/-- **The switch `rounding=False` returns the unrounded column, of which the rounded column is
`roundTo`.** Let the call with rounding succeed with table `tbl`, and the SAME call with
`rounding := false` succeed with table `tbl'`. Let the requested target `t` be a keyed rule with a
well-formed specification (as in `simulate_rounded_on_grid`), and let ALL FREE ARGUMENTS of `t` be
data columns (`hdata`). Then the column of `t` with rounding is entry by entry
`roundTo b dir off` of the (numeric value `sp_numVal` of the) entry of the column of `t` without
rounding. The hypothesis `hdata` is what makes the inputs of `t` the same in both calls: if an
argument of `t` were computed from another rounded rule, that argument itself would differ between
the two calls (see the example `sysChain` below). -/
theorem simulate_rounding_switch (inp : Input) (tbl tbl' : Table) (t key : String) (pr : Prep) (f : Fn)
    (fn : FunDef) (ret : Option Ty) (s : RSpec) (b off : Rat) (dir : Round.Dir) (col' : Column)
    (h : simulate inp = .ok tbl) (h' : simulate { inp with rounding := false } = .ok tbl')
    (ht : t ∈ inp.targets) (hpr : sp_prep inp = .ok pr)
    (hf : findFn? pr.fns t = some f) (hk : f.kind = .rule fn ret (some key))
    (hspec : roundingSpecOf inp.params key t = .ok s) (hs : SpecIs s b dir off)
    (hdata : ∀ a ∈ freeArgs inp.params f, (Dag.find? pr.data a).isSome = true)
    (hc' : find? tbl' t = some col') :
    find? tbl t = some (col'.map fun x => Val.flt (Round.roundTo b dir off (sp_numVal x))) := by
  have hpr' := sp_prep_rounding_off hpr
  have hf' : findFn? (pr.fns.map sp_strip) t = some (sp_strip f) := by
    rw [sp_findFn?_map sp_strip sp_strip_name, hf]; rfl
  have hk' : (sp_strip f).kind = .rule fn ret none := by
    unfold sp_strip; rw [hk]
  obtain ⟨v, args, _, hcol, hargs, hop⟩ := sp_target_unfold' h ht hpr hf
  obtain ⟨v', args', _, hcol', hargs', hop'⟩ :=
    sp_target_unfold' (inp := { inp with rounding := false }) h' ht hpr' hf'
  have hname : f.name = t := (findFn?_some hf).2
  rw [sp_nodeLazy_rule hk, sp_lazySpec_keyed hk (by rw [hname]; exact hspec)] at hop
  rw [sp_nodeLazy_rule hk', sp_lazySpec_unkeyed hk'] at hop'
  have hfree : freeArgs inp.params (sp_strip f) = freeArgs inp.params f := sp_freeArgs_strip _ _
  have hargs'' : List.Forall₂ (fun a c => ov_value { inp with rounding := false } a = .ok c)
      (freeArgs inp.params f) args' := by rw [← hfree]; exact hargs'
  have hop'' : ruleOp inp.params fn ret none (freeArgs inp.params f) args' = .ok v' := by
    rw [← hfree]; exact hop'
  have hsame : args = args' := by
    refine sp_forall₂_unique hargs hargs'' ?_
    intro a ha c c' hc hc1
    cases hd : Dag.find? pr.data a with
    | none => have := hdata a ha; rw [hd] at this; cases this
    | some d =>
      rw [sp_value_data hpr hc hd, sp_value_data hpr' hc1 hd]
  subst hsame
  obtain ⟨raw, hraw, hexp⟩ := sp_rounded_expand (sp_nRows pr) hop hs
  rw [hop''] at hraw
  cases hraw
  rw [hcol'] at hc'
  have hcol'eq : col' = (sp_expand (sp_nRows pr) v').map rToVal := by
    rw [← sp_render_eq]; exact (Option.some.inj hc').symm
  rw [hcol, sp_render_eq, hexp, hcol'eq, List.map_map, List.map_map]
  congr 1
  apply List.map_congr_left
  intro r _
  simp only [Function.comp, sp_numVal_rToVal]
  rfl

/-! ## non-vacuity: two households, `a_m(x) = x * 2`, targets `a_m`, `a_y`, `a_m_hh` -/
namespace SimSpecsExamples
open T3Examples

/-- `def a_m(x: float) -> float: return x * 2`; three persons in two households -/
def sys : Input :=
  { rules := [{ name := "a_m", fn := amFn, ret := some .float }],
    data := [("p_id", [.int 0, .int 1, .int 2]), ("hh_id", [.int 0, .int 0, .int 1]),
             ("x", [.flt 1, .flt (5/2), .flt 4])],
    targets := ["a_m", "a_y", "a_m_hh"] }

/-- the same with `params_key_for_rounding = "grp"`, rounded up to multiples of 5 -/
def sysR : Input :=
  { sys with
    rules := [{ name := "a_m", fn := amFn, ret := some .float, roundingKey := some "grp" }],
    params := [("grp", .tree (.dict [(.s "rounding",
      .dict [(.s "a_m", .dict [(.s "base", .num 5), (.s "direction", .str "up")])])]))] }

/-- a column of floats with the given values -/
def isFlts : Option Column → List Rat → Bool
  | some (.flt q :: l), q' :: qs => q == q' && isFlts (some l) qs
  | some [], [] => true
  | _, _ => false

def kindIsTimeConv (f : Fn) (a : String) (u v : TUnit) : Bool :=
  match f.kind with
  | .timeConv a' u' v' => a' == a && u' == u && v' == v
  | _ => false

def kindIsSum (f : Fn) (s gid : String) : Bool :=
  match f.kind with
  | .groupAgg .sum (some s') gid' => s' == s && gid' == gid
  | _ => false

def kindIsKeyedRule (f : Fn) (key : String) : Bool :=
  match f.kind with
  | .rule _ _ (some key') => key' == key
  | _ => false

/-- hypotheses of `simulate_node_unfold` / `simulate_arg_column`: the call succeeds and `a_y`, `a_m`
are requested; the function of `a_y` has the single free argument `a_m` -/
example : (match simulate sys, sp_prep sys with
    | .ok _, .ok pr =>
      (match findFn? pr.fns "a_y" with
       | some f => freeArgs sys.params f == ["a_m"]
       | none => false)
    | _, _ => false) = true ∧ "a_y" ∈ sys.targets ∧ "a_m" ∈ sys.targets := by
  refine ⟨by decide +kernel, by decide, by decide⟩

/-- hypotheses of `simulate_time_variant` (`a = a_m`, `b = a_y`, `u = m`, `v = y`,
`qs = [2, 5, 8]`) — and its conclusion on this instance: `a_y = [24, 60, 96]` -/
example : (match simulate sys, sp_prep sys with
    | .ok tbl, .ok pr =>
      (match findFn? pr.fns "a_y" with
       | some f => kindIsTimeConv f "a_m" .m .y
       | none => false) &&
      isFlts (find? tbl "a_m") [2, 5, 8] && isFlts (find? tbl "a_y") [24, 60, 96]
    | _, _ => false) = true := by decide +kernel
example : [24, 60, 96] = ([2, 5, 8] : List Rat).map (TimeConv.conv .m .y) := by decide +kernel

/-- hypotheses of `simulate_group_sum` (`s = a_m`, `x = a_m_hh`, `gid = hh_id`, a data column with
ids `[0, 0, 1]`; all data columns have 3 rows) — and its conclusion: `a_m_hh = [7, 7, 8]` -/
example : (match simulate sys, sp_prep sys with
    | .ok tbl, .ok pr =>
      (match findFn? pr.fns "a_m_hh" with
       | some f => kindIsSum f "a_m" "hh_id"
       | none => false) &&
      (match Dag.find? pr.data "hh_id" with
       | some g => g.ints == [0, 0, 1]
       | none => false) &&
      isFlts (find? tbl "a_m") [2, 5, 8] && isFlts (find? tbl "a_m_hh") [7, 7, 8]
    | _, _ => false) = true := by decide +kernel
example : ∀ c ∈ sys.data, c.2.length = nRowsOf sys := by decide
example : ([0, 0, 1] : List Int).map (fun k => (Agg.members [0, 0, 1] ([2, 5, 8] : List Rat) k).sum) = [7, 7, 8] := by
  decide +kernel

/-- hypotheses of `simulate_rounded_on_grid` for `sysR` (`t = a_m`, `key = "grp"`, base 5, up,
offset 0) — and the rounded column `[5, 5, 10]`; the derived columns are computed from it -/
example : (match simulate sysR, sp_prep sysR with
    | .ok tbl, .ok pr =>
      (match findFn? pr.fns "a_m" with
       | some f => kindIsKeyedRule f "grp"
       | none => false) &&
      (roundingSpecOf sysR.params "grp" "a_m").toBool &&
      isFlts (find? tbl "a_m") [5, 5, 10] && isFlts (find? tbl "a_y") [60, 60, 120] &&
      isFlts (find? tbl "a_m_hh") [10, 10, 10]
    | _, _ => false) = true := by decide +kernel
example : ∃ s, roundingSpecOf sysR.params "grp" "a_m" = .ok s ∧ SpecIs s 5 .up 0 :=
  ⟨{ base := .num 5, direction := .str "up", off := none }, by rfl,
   ⟨"up", rfl, by decide, rfl, by decide, rfl⟩⟩

/-- hypotheses of `simulate_rounding_switch` for `sysR`, `t = a_m`: both calls succeed, the only free
argument `x` of `a_m` is a data column — and the conclusion: `[5, 5, 10]` is `roundTo 5 up 0` of the
unrounded column `[2, 5, 8]` -/
example : (match simulate sysR, simulate { sysR with rounding := false }, sp_prep sysR with
    | .ok tbl, .ok tbl', .ok pr =>
      (match findFn? pr.fns "a_m" with
       | some f => kindIsKeyedRule f "grp" &&
          (freeArgs sysR.params f).all (fun a => (Dag.find? pr.data a).isSome)
       | none => false) &&
      isFlts (find? tbl "a_m") [5, 5, 10] && isFlts (find? tbl' "a_m") [2, 5, 8]
    | _, _, _ => false) = true := by decide +kernel
example : ([2, 5, 8] : List Rat).map (Round.roundTo 5 .up 0) = [5, 5, 10] := by decide +kernel

/-- **`hdata` is necessary.** `c(a_m) = a_m + 1` is rounded up to multiples of 5 as well, and its
argument `a_m` is a rounded rule, not a data column. With rounding: `a_m = [5, 5, 10]`,
`c = roundTo [6, 6, 11] = [10, 10, 15]`; without: `a_m = [2, 5, 8]`, `c = [3, 6, 9]`, whose
`roundTo` is `[5, 10, 10] ≠ [10, 10, 15]`. -/
def sysChain : Input :=
  { sysR with
    rules := sysR.rules ++ [Examples.rule "c" ["a_m"] (Examples.add (Examples.nm "a_m") (Examples.it 1))
      (some .float) (some "grp")],
    params := [("grp", .tree (.dict [(.s "rounding",
      .dict [(.s "a_m", .dict [(.s "base", .num 5), (.s "direction", .str "up")]),
             (.s "c", .dict [(.s "base", .num 5), (.s "direction", .str "up")])])]))],
    targets := ["c"] }

example : (match simulate sysChain, simulate { sysChain with rounding := false } with
    | .ok tbl, .ok tbl' => isFlts (find? tbl "c") [10, 10, 15] && isFlts (find? tbl' "c") [3, 6, 9]
    | _, _ => false) = true ∧
    ([3, 6, 9] : List Rat).map (Round.roundTo 5 .up 0) = [5, 10, 10] := by
  refine ⟨by decide +kernel, by decide +kernel⟩

/-- hypotheses of `simulate_rule_rows` (and of `simulate_rule_rows_arg`) for `sys`, `t = a_m`,
`ty = float`: a declared rule without rounding key, its single free argument `x` is a data column,
whose value is a 1-d array with 3 entries -/
example : (match simulate sys, sp_prep sys with
    | .ok _, .ok pr =>
      (match findFn? pr.fns "a_m" with
       | some f =>
         (match f.kind with
          | .rule fn (some .float) none => !fn.args.isEmpty
          | _ => false) &&
         freeArgs sys.params f == ["x"] &&
         (freeArgs sys.params f).all (fun a => match ov_value sys a, Dag.find? pr.data a with
            | .ok c, some _ => c.shape == .arr && c.vals.length == 3
            | _, _ => false)
       | none => false)
    | _, _ => false) = true := by decide +kernel
/-- … and what it says about row 1: `a_m(2.5) = 5.0` -/
example : (match Lang.runFun amFn [.flt (5/2)] with | .ok (.flt q) => q == 5 | _ => false) = true ∧
    valToR (.flt 5) = some (.f 5) ∧ rToVal (VecDtype.cast Ty.float.toDT (.f 5)) = .flt 5 := by
  refine ⟨by decide +kernel, rfl, rfl⟩

/-- an int-valued rule `cnt(x) -> int: 1 if x > 2 else 0` and a bool-valued rule `flag(x) -> bool` -/
def sysI : Input :=
  { sys with
    rules := [Examples.cnt, Examples.flag],
    targets := ["cnt", "cnt_hh", "flag", "flag_hh"] }

def isInts : Option Column → List Int → Bool
  | some (.int q :: l), q' :: qs => q == q' && isInts (some l) qs
  | some [], [] => true
  | _, _ => false

/-- hypotheses of `simulate_group_sum_int` (`s = cnt`, `x = cnt_hh`, `gid = hh_id`) and its conclusion
`cnt_hh = [1, 1, 1]`; the group sum of the BOOL column `flag = [False, True, True]` counts the
`True`s and is an int column, `flag_hh = [1, 1, 1]` -/
example : (match simulate sysI, sp_prep sysI with
    | .ok tbl, .ok pr =>
      (match findFn? pr.fns "cnt_hh" with
       | some f => kindIsSum f "cnt" "hh_id"
       | none => false) &&
      (match Dag.find? pr.data "hh_id" with
       | some g => g.ints == [0, 0, 1]
       | none => false) &&
      isInts (find? tbl "cnt") [0, 1, 1] && isInts (find? tbl "cnt_hh") [1, 1, 1] &&
      isInts (find? tbl "flag_hh") [1, 1, 1]
    | _, _ => false) = true := by decide +kernel
/-- hypotheses of `simulate_group_sum_bool` (`s = flag`, `x = flag_hh`): the value of `flag` is a 1-d
array, its column is `[False, True, True]`; per household 1 and 1 `True`s -/
example : (match simulate sysI, sp_prep sysI, ov_value sysI "flag" with
    | .ok tbl, .ok pr, .ok c =>
      (match findFn? pr.fns "flag_hh" with
       | some f => kindIsSum f "flag" "hh_id"
       | none => false) &&
      c.shape == .arr &&
      (match find? tbl "flag" with
       | some [.bool false, .bool true, .bool true] => true
       | _ => false)
    | _, _, _ => false) = true := by decide +kernel
example : ([0, 0, 1] : List Int).map (fun k => (((Agg.members [0, 0, 1] [false, true, true] k).filter id).length : Int))
    = [1, 1, 1] := by decide +kernel
example : ([0, 0, 1] : List Int).map (fun k => (Agg.members [0, 0, 1] ([0, 1, 1] : List Int) k).sum) = [1, 1, 1] := by
  decide +kernel

end SimSpecsExamples

end GV.Simulate
