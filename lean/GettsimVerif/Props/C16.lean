import GettsimVerif.Lemmas.Sign
import GettsimVerif.Core.TimeConv
import GettsimVerif.Core.ArrSem
import Mathlib.Tactic.FieldSimp
/-
C16 — a verified sign analysis for the rule language, compositional over a graph of rules:
"all default targets (taxes, contributions, transfers) are non-negative; a benefit paid after
the priority checks never exceeds the entitlement computed before them".

MEANING OF THE ABSTRACT VALUES (`Abs.holds`, defined in `Core/Sign.lean`):
  * `nonneg`: a number `q ≥ 0` (`int`, `float` or Python `bool`, which is an int) or `+inf`;
  * `pos`:    a number `q > 0` (incl. `True`) or `+inf`;
  * `zero`:   a number `= 0` (`0`, `0.0`, `False`);
  * `bool`:   a Python `bool`;
  * `pnn`:    "a parameter with nothing negative inside" (`PNN`): not a negative number, not
              `-inf`, and if it is a parameter tree then no leaf is a negative number or
              `-inf` (`nnTreeB`); strings, `None`, dates are allowed.  Subscripting a `pnn`
              gives a `pnn`; in arithmetic, `max`/`min`, `float` a `pnn` operand counts as
              `nonneg` (non-numbers raise there);
  * `any`:    anything.
`numLe u v` is `u ≤ v` in the order `-inf < rationals < +inf` of `ord?`; both sides must be
numbers or `±inf` (`numLe_num` specialises it to two numbers).

All soundness statements are of the partial-correctness kind: IF the concrete evaluation
succeeds with value `v`, THEN `v` is described by the abstract result (division by zero,
missing keys, type errors raise in the concrete semantics and are not excluded here).
-/
namespace GV.Sign
open GV.Lang

/-! ### 5: expressions, blocks, functions -/

/-- Expression soundness.  `EnvHolds Γ env`: every name bound in `env` has the class of its
(first) entry in `Γ`, names without an entry are unconstrained.  (This hypothesis is implied by
the form "every name listed in `Γ` is bound in `env` to a value of its class".) -/
theorem absExpr_sound {Γ : List (String × Abs)} {env : Env} {e : Expr} {v : Val}
    (h : EnvHolds Γ env) (he : evalExpr env e = .ok v) : (absExpr Γ e).holds v :=
  absExpr_ok h he

/-- the same with the hypothesis in the "listed names are bound" form -/
theorem absExpr_sound' {Γ : List (String × Abs)} {env : Env} {e : Expr} {v : Val}
    (h : ∀ x a, (x, a) ∈ Γ → ∃ u, env.get? x = some u ∧ (tblGet Γ x).holds u)
    (he : evalExpr env e = .ok v) : (absExpr Γ e).holds v := by
  refine absExpr_ok (fun x u hu => ?_) he
  by_cases hx : ∃ a, (x, a) ∈ Γ
  · obtain ⟨a, ha⟩ := hx
    obtain ⟨u', hu', hh⟩ := h x a ha
    rw [hu] at hu'
    cases hu'
    exact hh
  · have : tblGet Γ x = .any := by
      clear h he
      induction Γ with
      | nil => rfl
      | cons p rest ih =>
        obtain ⟨k, b⟩ := p
        simp only [tblGet]
        split
        · rename_i hk
          subst hk
          exact (hx ⟨b, List.mem_cons_self⟩).elim
        · exact ih (fun ⟨a, ha⟩ => hx ⟨a, List.mem_cons_of_mem _ ha⟩)
    rw [this]
    trivial

/-- Block soundness: the value returned by the block (`None` if it falls off its end) has the
class `absBlock Γ body` (the join over all `return` paths, `any` if the end is reachable). -/
theorem absBlock_sound {Γ : List (String × Abs)} {body : List Stmt} {env env' : Env}
    {r : Option Val} (h : EnvHolds Γ env) (hb : execBlock env body = .ok (env', r)) :
    (absBlock Γ body).holds (r.getD .none) :=
  absBlock_ok (agree_plain h) hb

/-- Function soundness: for ALL arguments of the classes `argAbs` (`ArgsHold`: position `j`
of `args` has class `argAbs[j]`, positions beyond `argAbs` are unconstrained), a successful
call returns a value of class `absFun argAbs f`. -/
theorem absFun_sound {argAbs : List Abs} {f : FunDef} {args : List Val} {v : Val}
    (ha : ArgsHold argAbs args) (h : runFun f args = .ok v) : (absFun argAbs f).holds v :=
  absFun_ok ha h

/-- … in particular with `List.Forall₂` as the argument hypothesis -/
theorem absFun_sound_forall₂ {argAbs : List Abs} {f : FunDef} {args : List Val} {v : Val}
    (ha : List.Forall₂ Abs.holds argAbs args) (h : runFun f args = .ok v) :
    (absFun argAbs f).holds v :=
  absFun_ok (argsHold_of_forall₂ ha) h

/-- … and spelled out for `nonneg`: the result is a non-negative number or `+inf` -/
theorem absFun_nonneg {argAbs : List Abs} {f : FunDef} {args : List Val} {v : Val}
    (hc : (absFun argAbs f).numeric = true) (ha : ArgsHold argAbs args)
    (h : runFun f args = .ok v) :
    (∃ q fl, num? v = some (q, fl) ∧ 0 ≤ q) ∨ v = .inf false :=
  holds_numeric hc (absFun_ok ha h)

/-- Constants (in particular parameter values and parameter trees handed to a rule) have the
class `absConst` computes for them: a parameter tree passing the check `nnTreeB` is a `pnn`. -/
theorem absConst_holds (v : Val) : (absConst v).holds v := absConst_sound v

/-- A component of a parameter with nothing negative inside has nothing negative inside. -/
theorem subscript_pnn {c idx w : Val} (hc : PNN c) (h : evalSub c idx = .ok w) : PNN w :=
  evalSub_pnn hc h

/-! ### 4: `result ≤ argument` -/

/-- If `absLeArg f i argAbs` succeeds then, for ALL arguments of the classes `argAbs`, a
successful call returns a value `≤` its `i`-th argument. -/
theorem absLeArg_sound {f : FunDef} {i : Nat} {argAbs : List Abs} {args : List Val} {v : Val}
    (hc : absLeArg f i argAbs = true) (ha : ArgsHold argAbs args)
    (h : runFun f args = .ok v) : ∃ t, args[i]? = some t ∧ numLe v t :=
  absLeArg_ok hc ha h

/-- `numLe` on two numbers is `≤` on their values. -/
theorem numLe_num_le {u v : Val} {p q : Rat} {fu fv : Bool} (h : numLe u v)
    (hu : num? u = some (p, fu)) (hv : num? v = some (q, fv)) : p ≤ q :=
  numLe_num h hu hv

/-! ### 6: graphs -/

/-- Table soundness.  `val r` is the valuation of row `r` (any row type `ρ`); `NodeSem val n`
says how node `n`'s column arises from its dependencies in every row (rule: `runFun` on the
argument columns; input: of the declared class; `sumAgg`: Python `sum` over a non-empty list
of rows of the source column; `countAgg`: a positive `int`; `maxAgg`/`minAgg`: the source value
of some row; `anyAgg`: a `bool`; `timeconv`: source times a positive factor; `opaque`:
nothing).  Then EVERY entry of the table describes the node's value in EVERY row. -/
theorem signTable_sound {ρ : Type} {val : ρ → String → Val} {nodes : List GNode}
    (hall : ∀ n ∈ nodes, NodeSem val n) :
    ∀ r x a, (x, a) ∈ signTable nodes → a.holds (val r x) :=
  signTable_ok hall

/-- … and so does every look-up in the table. -/
theorem signTable_sound_get {ρ : Type} {val : ρ → String → Val} {nodes : List GNode}
    (hall : ∀ n ∈ nodes, NodeSem val n) (r : ρ) (x : String) :
    (tblGet (signTable nodes) x).holds (val r x) :=
  tblGet_holds (signTable_ok hall) r x

/-- "All targets are non-negative": if the check `allNonneg` succeeds on the table, every
target is a non-negative number (or `+inf`) in every row. -/
theorem allNonneg_sound {ρ : Type} {val : ρ → String → Val} {nodes : List GNode}
    (hall : ∀ n ∈ nodes, NodeSem val n) {targets : List String}
    (hc : allNonneg (signTable nodes) targets = true) :
    ∀ x ∈ targets, ∀ r,
      (∃ q fl, num? (val r x) = some (q, fl) ∧ 0 ≤ q) ∨ val r x = .inf false :=
  allNonneg_ok hall hc

/-- "The benefit after the priority check never exceeds the entitlement before it": if
`absLeArg` succeeds for a rule node with the argument classes taken from the table, the node's
value is `≤` the value of its `i`-th argument node in every row. -/
theorem leArg_graph_sound {ρ : Type} {val : ρ → String → Val} {nodes : List GNode}
    (hall : ∀ n ∈ nodes, NodeSem val n) {name : String} {fn : FunDef} {argNames : List String}
    (hmem : (⟨name, .rule fn argNames⟩ : GNode) ∈ nodes) {i : Nat}
    (hc : absLeArg fn i (argNames.map (tblGet (signTable nodes))) = true) :
    ∃ x, argNames[i]? = some x ∧ ∀ r, numLe (val r name) (val r x) :=
  leArg_graph_ok hall hmem hc

/-- Every pair `(x, y)` listed by `leFacts nodes` satisfies `x ≤ y` in every row. -/
theorem leFacts_sound {ρ : Type} {val : ρ → String → Val} {nodes : List GNode}
    (hall : ∀ n ∈ nodes, NodeSem val n) {x y : String} (hm : (x, y) ∈ leFacts nodes) :
    ∀ r, numLe (val r x) (val r y) :=
  leFacts_ok hall hm

/-- An input node whose column is the constant `v` in every row (a parameter) satisfies its node
semantics with the class `absConst v`. -/
theorem input_const_sem {ρ : Type} {val : ρ → String → Val} {name : String} {v : Val}
    (h : ∀ r, val r name = v) : NodeSem val ⟨name, .input (absConst v)⟩ := by
  intro r
  show (absConst v).holds (val r name)
  rw [h r]
  exact absConst_sound v

/-- The converters of `_gettsim/time_conversion.py` (`TimeConv.conv`) are instances of the
`timeconv` node semantics: multiplication by the positive factor `perYear u / perYear v`. -/
theorem timeconv_conv (u v : TimeConv.TUnit) (x : Rat) :
    TimeConvRel (.flt x) (.flt (TimeConv.conv u v x)) := by
  refine ⟨TimeConv.perYear u / TimeConv.perYear v, ?_, ?_⟩
  · cases u <;> cases v <;> simp only [TimeConv.perYear] <;> norm_num
  · have : TimeConv.conv u v x = x * (TimeConv.perYear u / TimeConv.perYear v) := by
      cases u <;> cases v <;> simp only [TimeConv.conv, TimeConv.perYear] <;> ring
    rw [this]
    rfl

/-! ### 7: non-vacuity on the miniature rules and graphs of `GV.Sign.Mini` -/

section NonVacuity
open Mini

-- the analysis results (computed by the kernel)
example : absFun [.any, .any] f1 = .nonneg := by decide
example : absFun [.nonneg, .nonneg] f2 = .nonneg := by decide
example : absFun [.nonneg, .any] f2 = .nonneg := by decide       -- `n > 0` alone suffices
example : absFun [.any, .any] f2 = .any := by decide              -- nothing known about `a`
example : absFun [.nonneg, .bool, .bool] alg2 = .nonneg := by decide
example : absFun [.any, .any, .any] netto = .nonneg := by decide
example : absLeArg alg2 0 [.nonneg, .bool, .bool] = true := by decide
example : absLeArg alg2 1 [.nonneg, .bool, .bool] = false := by decide   -- not `≤` a flag
example : absLeArg alg2 0 [.any, .bool, .bool] = false := by decide      -- `0.0 ≤ v` needs `v ≥ 0`
example : absLeArg netto 0 [.nonneg, .nonneg, .nonneg] = true := by decide
example : absLeArg netto 1 [.nonneg, .nonneg, .nonneg] = true := by decide
example : absLeArg netto 2 [.nonneg, .nonneg, .nonneg] = false := by decide
example : absLeArg netto 0 [.nonneg, .nonneg, .any] = false := by decide  -- deduction may be < 0
-- branch refinement at expression level: `a / n if n > 0 else 0.0`
example : absExpr [("a", .nonneg)] (.ifexp (.cmp (.name "n") [(.gt, .const (.int 0))])
    (.bin .div (.name "a") (.name "n")) (.const (.flt 0))) = .nonneg := by decide
example : absExpr [("a", .nonneg), ("n", .nonneg)]
    (.ifexp (.cmp (.const (.int 0)) [(.lt, .name "n")]) (.name "n") (.const (.int 1))) = .pos := by
  decide
example : absExpr [("n", .nonneg)]
    (.ifexp (.boolop true [.cmp (.name "n") [(.le, .const (.int 0))], .name "flag"])
      (.name "n") (.const (.flt 0))) = .zero := by decide

-- parameter trees: `lohn * params["beitr_satz"]["ges_rentenv"]`
example : nnTreeB params = true := by decide +kernel
example : nnTreeB paramsNeg = false := by decide +kernel
example : absConst (.tree params) = .pnn := by decide +kernel
example : absConst (.tree paramsNeg) = .any := by decide +kernel
example : absFun [.nonneg, .pnn] beitrag = .nonneg := by decide
example : absFun [.nonneg, .any] beitrag = .any := by decide
example : absExpr [("p", .pnn)] (.sub (.name "p") (.const (.str "k"))) = .pnn := by decide
example : absExpr [("p", .pnn)]
    (.call "float" [.sub (.name "p") (.const (.str "k"))]) = .nonneg := by decide
example : absExpr [("p", .pnn), ("x", .any)]
    (.call "min" [.sub (.name "p") (.const (.str "k")), .call "abs" [.name "x"]]) = .nonneg := by
  decide
example : runFun beitrag [.flt 1000, .tree params] = .ok (.flt 93) := by decide +kernel
example : runFun beitrag [.flt 1000, .tree paramsNeg] = .ok (.flt (-100)) := by decide +kernel

/-- instantiated `absFun_sound` with a parameter tree: for EVERY tree with nothing negative
inside and every non-negative wage the contribution is non-negative -/
example : ∀ (lohn : Val) (p : GV.Yaml.Y) (v : Val), IsNonneg lohn → nnTreeB p = true →
    runFun beitrag [lohn, .tree p] = .ok v → IsNonneg v := fun lohn p v hl hp h =>
  absFun_nonneg (argAbs := [.nonneg, .pnn]) (by decide)
    (argsHold_of_forall₂ (.cons hl (.cons
      (show PNN (.tree p) from
        ⟨fun q fl h => (by cases h), fun h => (by cases h), fun y hy => (by cases hy; exact hp)⟩)
      .nil))) h

-- the concrete semantics on the same rules (the soundness hypotheses are satisfiable)
example : runFun f1 [.flt 3, .flt 5] = .ok (.flt 0) := by decide +kernel
example : runFun f1 [.flt 7, .int 5] = .ok (.flt 2) := by decide +kernel
example : runFun f1 [.inf false, .int 5] = .ok (.inf false) := by decide +kernel  -- why `+inf`
example : runFun f2 [.flt 7, .int 2] = .ok (.flt (7 / 2)) := by decide +kernel
example : runFun f2 [.flt 7, .int 0] = .ok (.flt 0) := by decide +kernel
example : runFun alg2 [.flt 7, .bool false, .bool true] = .ok (.flt 0) := by decide +kernel
example : runFun alg2 [.flt 7, .bool false, .bool false] = .ok (.flt 7) := by decide +kernel
example : runFun netto [.flt 900, .flt 800, .flt 100] = .ok (.flt 700) := by decide +kernel

/-- instantiated `absFun_sound`: `max(x - y, 0.0)` is non-negative for ALL `x`, `y` -/
example : ∀ x y v : Val, runFun f1 [x, y] = .ok v → IsNonneg v := fun x y v h =>
  absFun_nonneg (argAbs := [.any, .any]) (by decide)
    (argsHold_of_forall₂ (.cons trivial (.cons trivial .nil))) h

/-- instantiated `absFun_sound`: `a / n if n > 0 else 0.0` is non-negative for all `a, n ≥ 0` -/
example : ∀ a n v : Val, IsNonneg a → IsNonneg n → runFun f2 [a, n] = .ok v → IsNonneg v :=
  fun a n v ha hn h =>
    absFun_nonneg (argAbs := [.nonneg, .nonneg]) (by decide)
      (argsHold_of_forall₂ (.cons ha (.cons hn .nil))) h

/-- instantiated `absLeArg_sound`: the benefit after the priority check is `≤` the entitlement -/
example : ∀ (v : Val) (b₁ b₂ : Bool) (res : Val), IsNonneg v →
    runFun alg2 [v, .bool b₁, .bool b₂] = .ok res → numLe res v := by
  intro v b₁ b₂ res hv h
  obtain ⟨t, ht, hle⟩ := absLeArg_sound (argAbs := [.nonneg, .bool, .bool]) (i := 0)
    (by decide) (argsHold_of_forall₂ (.cons hv (.cons ⟨b₁, rfl⟩ (.cons ⟨b₂, rfl⟩ .nil)))) h
  cases ht
  exact hle

/-- … as an inequality of rationals when both are finite numbers -/
example : ∀ (p : Rat) (b₁ b₂ : Bool) (res : Val) (q : Rat) (fl : Bool), 0 ≤ p →
    runFun alg2 [.flt p, .bool b₁, .bool b₂] = .ok res → num? res = some (q, fl) → q ≤ p := by
  intro p b₁ b₂ res q fl hp h hq
  obtain ⟨t, ht, hle⟩ := absLeArg_sound (argAbs := [.nonneg, .bool, .bool]) (i := 0)
    (by decide) (argsHold_of_forall₂
      (.cons (Or.inl ⟨p, true, rfl, hp⟩) (.cons ⟨b₁, rfl⟩ (.cons ⟨b₂, rfl⟩ .nil)))) h
  cases ht
  exact numLe_num_le hle hq rfl

-- the miniature graph: its table, and a data set satisfying the node semantics
example : signTable graph =
    [("x_m", .nonneg), ("r1_m", .nonneg), ("r2_m", .nonneg), ("r2_m_hh", .nonneg),
     ("r2_y_hh", .nonneg)] := by decide
example : allNonneg (signTable graph) ["r1_m", "r2_m", "r2_m_hh", "r2_y_hh"] = true := by decide

theorem mini_sem : ∀ n ∈ graph, NodeSem val n := by
  intro n hn
  simp only [graph, List.mem_cons, List.not_mem_nil, or_false] at hn
  rcases hn with rfl | rfl | rfl | rfl | rfl
  · intro r
    cases r
    · exact Or.inl ⟨3, true, rfl, by decide⟩
    · exact Or.inl ⟨5, true, rfl, by decide⟩
  · intro r
    cases r <;> decide +kernel
  · intro r
    cases r <;> decide +kernel
  · intro r
    exact ⟨[false, true], by simp, by cases r <;> decide +kernel⟩
  · intro r
    exact ⟨12, by decide, by cases r <;> decide +kernel⟩

/-- instantiated `allNonneg_sound` on the concrete data set -/
example : ∀ r, IsNonneg (val r "r2_y_hh") :=
  allNonneg_sound mini_sem (targets := ["r2_y_hh"]) (by decide) _ List.mem_cons_self

/-- instantiated `signTable_sound` for EVERY data set of the miniature graph -/
example {ρ : Type} (w : ρ → String → Val) (h : ∀ n ∈ graph, NodeSem w n) :
    ∀ r, IsNonneg (w r "r2_m_hh") := fun r => by
  have := signTable_sound_get h r "r2_m_hh"
  have e : tblGet (signTable graph) "r2_m_hh" = .nonneg := by decide
  rw [e] at this
  exact this

theorem mini_sem2 : ∀ n ∈ graph2, NodeSem val2 n := by
  intro n hn
  simp only [graph2, List.mem_cons, List.not_mem_nil, or_false] at hn
  rcases hn with rfl | rfl | rfl | rfl
  · intro r
    exact Or.inl ⟨400, true, rfl, by decide⟩
  · intro r
    exact ⟨false, rfl⟩
  · intro r
    exact ⟨r, rfl⟩
  · intro r
    cases r <;> decide +kernel

example : absLeArg alg2 0
    (["vor_vorrang_m", "kiz_vorrang", "wog_vorrang"].map (tblGet (signTable graph2))) = true := by
  decide

/-- instantiated `leArg_graph_sound`: `alg2_m ≤ vor_vorrang_m` in every row of EVERY data set -/
example {ρ : Type} (w : ρ → String → Val) (h : ∀ n ∈ graph2, NodeSem w n) :
    ∀ r, numLe (w r "alg2_m") (w r "vor_vorrang_m") := by
  obtain ⟨x, hx, hle⟩ := leArg_graph_sound h (name := "alg2_m") (fn := alg2)
    (argNames := ["vor_vorrang_m", "kiz_vorrang", "wog_vorrang"]) (i := 0)
    (by simp [graph2]) (by decide)
  cases hx
  exact hle

example : leFacts graph2 = [("alg2_m", "vor_vorrang_m")] := by decide
example : leFacts graph = [] := by decide

example : ∀ r, numLe (val2 r "alg2_m") (val2 r "vor_vorrang_m") :=
  leFacts_sound mini_sem2 (by decide)

example : ∀ r, numLe (val2 r "alg2_m") (val2 r "vor_vorrang_m") := by
  obtain ⟨x, hx, hle⟩ := leArg_graph_sound mini_sem2 (name := "alg2_m") (fn := alg2)
    (argNames := ["vor_vorrang_m", "kiz_vorrang", "wog_vorrang"]) (i := 0)
    (by simp [graph2]) (by decide)
  cases hx
  exact hle

end NonVacuity

end GV.Sign
