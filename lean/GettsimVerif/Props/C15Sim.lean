import GettsimVerif.Lemmas.SimConst
/-
Property C15 on the CONCRETE node operations of the executable model `Core/Simulate.lean` of
`compute_taxes_and_transfers`: "every computed column whose name carries a group suffix has a
single value per group, repeated for all members of that group."

Vocabulary (defined in `Lemmas/SimConst.lean`):
* `ConstOn gid c`      : the column `c` is a scalar (0-d array, numpy scalar, Python number), or it
                         has as many rows as the id list `gid` and any two rows with the same id in
                         `gid` carry the same value;
* `Refines fine coarse`: two rows with the same id in `fine` have the same id in `coarse`
                         (`bg ⊑ fg ⊑ hh`);
* `constNode params fns D gid fuel t` : the computable syntactic check "node `t` is `gid`-constant"
                         (see `sys_eval_const`);
* `sysOf params specs fns` (from `Lemmas/SimPerm.lean`): the `Dag.Sys` built by `nodeOf`.

The abstract counterpart (levels of a name, `const_sound`, `constTable_sound`) is `Props/C15.lean`.
All statements are conditional on SUCCESS of the call (`= .ok out`).
-/
namespace GV.Simulate
open GV.VecDtype (R DT)
open GV.Lang (Val FunDef)
open GV.TimeConv (TUnit)

/-! ## 1. grouped aggregations -/

/-- C15-Sim.1 `grouped_sum/mean/max/min/any/all(col, group_id)`: whenever the aggregation succeeds,
the result is a 1-d array with one row per row of `group_id`, and all members of a group get the
same value — whatever the source column is (1-d or a broadcast 0-d array). -/
theorem groupAggOp_const (a : Aggr) (col gidCol out : Col)
    (h : groupAggOp a [col, gidCol] = .ok out) : ConstOn gidCol.ints out :=
  gc_groupAggOp_two a (gc_refines_refl _) rfl h

/-- C15-Sim.1a `grouped_count(group_id)`: same statement for the one-argument form. -/
theorem groupAggOp_count_const (a : Aggr) (gidCol out : Col)
    (h : groupAggOp a [gidCol] = .ok out) : ConstOn gidCol.ints out :=
  gc_groupAggOp_one a (gc_refines_refl _) rfl h

/-- C15-Sim.1b An aggregate over a COARSE grouping is also constant on every FINER grouping of the
same table: an `_hh` aggregate has a single value on every `bg`. (`fine` has to list the same rows:
`fine.length = gidCol.ints.length`; see `refines_length_needed`.)
Both argument forms (`[col, gid]` and `[gid]`) are covered: the group id is the last argument. -/
theorem groupAggOp_const_refines (a : Aggr) (cols : List Col) (gidCol out : Col) (fine : List Int)
    (hlast : cols.getLast? = some gidCol)
    (hr : Refines fine gidCol.ints) (hlen : fine.length = gidCol.ints.length)
    (h : groupAggOp a cols = .ok out) : ConstOn fine out :=
  gc_groupAggOp_list a (fun g hg => by rw [hlast] at hg; cases hg; exact ⟨hr, hlen⟩) h

private def colX : Col := { dt := .float, vals := [.f 1, .f (5/2), .f 3, .f 10] }
private def colHH : Col := { dt := .int, vals := [.i 7, .i 7, .i 3, .i 3] }
/-- `bg`: the first household consists of two `bg`s, the second of one -/
private def bgIds : List Int := [70, 71, 30, 30]

example : groupAggOp .sum [colX, colHH] = .ok { dt := .float, vals := [.f (7/2), .f (7/2), .f 13, .f 13] } := by
  decide +kernel
example : groupAggOp .count [colHH] = .ok { dt := .float, vals := [.f 2, .f 2, .f 2, .f 2] } := by
  decide +kernel
example : ConstOn colHH.ints { dt := .float, vals := [.f (7/2), .f (7/2), .f 13, .f 13] } := by
  decide +kernel
/-- the hypotheses of `groupAggOp_const_refines` hold for `bg ⊑ hh` -/
example : Refines bgIds colHH.ints ∧ bgIds.length = colHH.ints.length ∧
    ¬ Refines colHH.ints bgIds := by decide +kernel
example : ConstOn bgIds { dt := .float, vals := [.f (7/2), .f (7/2), .f 13, .f 13] } :=
  groupAggOp_const_refines .sum [colX, colHH] colHH _ bgIds rfl (by decide +kernel) (by decide +kernel)
    (by decide +kernel)
/-- the source column itself is NOT constant on the households (the statement is not vacuous) -/
example : ¬ ConstOn colHH.ints colX := by decide +kernel

/-- C15-Sim.1c WHY the length hypothesis: `Refines` compares rows with the same index only, so an
id list with MORE rows (here three distinct ids) refines everything, but a column with two rows
is not a column over three rows. -/
theorem refines_length_needed :
    Refines [1, 2, 3] [0, 0] ∧
    groupAggOp .count [{ dt := .int, vals := [.i 0, .i 0] }] = .ok { dt := .float, vals := [.f 2, .f 2] } ∧
    ¬ ConstOn [1, 2, 3] { dt := .float, vals := [.f 2, .f 2] } := by decide +kernel

/-! ## 2. vectorized rules -/

/-- C15-Sim.2 A vectorized rule (`numpy.vectorize(f)` + rounding wrapper) — WITH a declared return
type or WITHOUT (dtype probed on the first row: the cast is the same for all rows of one call) —
applied to columns each of which is constant on the groups of `gid` (or a scalar) returns a column
that is constant on the groups of `gid`: rows with equal arguments get equal results, and the cast
and the rounding are pointwise. -/
theorem ruleOp_const (gid : List Int) (params : List (String × Val)) (fn : FunDef)
    (ret : Option Ty) (spec : Option RSpec) (free : List String) (cols : List Col) (out : Col)
    (hc : ∀ c ∈ cols, ConstOn gid c) (h : ruleOp params fn ret spec free cols = .ok out) :
    ConstOn gid out :=
  gc_ruleOp_const hc h

/-- `def f(x, y): return x * 2 + y` -/
private def fLin : FunDef :=
  { name := "f", args := ["x", "y"],
    body := [.ret (.bin .add (.bin .mul (.name "x") (.const (.int 2))) (.name "y"))] }
private def colXhh : Col := { dt := .float, vals := [.f (7/2), .f (7/2), .f 13, .f 13] }
private def colS : Col := { dt := .float, vals := [.f 100], shape := .npScalar }
private def spec5 : RSpec := { base := .num 5, direction := .str "up", off := none }

example : ∀ c ∈ [colXhh, colS], ConstOn colHH.ints c := by decide +kernel
/-- declared return type, no rounding -/
example : ruleOp [] fLin (some .float) none ["x", "y"] [colXhh, colS] =
    .ok { dt := .float, vals := [.f 107, .f 107, .f 126, .f 126] } := by decide +kernel
/-- no return annotation (probe), with rounding up to multiples of 5 -/
example : ruleOp [] fLin none (some spec5) ["x", "y"] [colXhh, colS] =
    .ok { dt := .float, vals := [.f 110, .f 110, .f 130, .f 130] } := by decide +kernel
/-- instance of the theorem (undeclared return type) -/
example : ConstOn colHH.ints { dt := .float, vals := [.f 110, .f 110, .f 130, .f 130] } :=
  ruleOp_const colHH.ints [] fLin none (some spec5) ["x", "y"] [colXhh, colS] _ (by decide +kernel)
    (by decide +kernel)
/-- a rule of an individual-level column is in general not group-constant -/
example : ruleOp [] fLin (some .float) none ["x", "y"] [colX, colS] =
      .ok { dt := .float, vals := [.f 102, .f 105, .f 106, .f 120] } ∧
    ¬ ConstOn colHH.ints { dt := .float, vals := [.f 102, .f 105, .f 106, .f 120] } := by
  decide +kernel

/-! ## 3. time conversions -/

/-- C15-Sim.3 The time-conversion wrappers (`m_to_y`, `y_to_m`, …) preserve group-constancy
(both the integer branch of `m_to_y` and the float branches are element-wise). -/
theorem timeConvOp_const (gid : List Int) (u v : TUnit) (cols : List Col) (out : Col)
    (hc : ∀ c ∈ cols, ConstOn gid c) (h : timeConvOp u v cols = .ok out) : ConstOn gid out :=
  gc_timeConvOp_const u v hc h

example : timeConvOp .m .y [colXhh] = .ok { dt := .float, vals := [.f 42, .f 42, .f 156, .f 156] } := by
  decide +kernel
example : ConstOn colHH.ints { dt := .float, vals := [.f 42, .f 42, .f 156, .f 156] } :=
  timeConvOp_const colHH.ints .m .y [colXhh] _ (by decide +kernel) (by decide +kernel)

/-! ## 4. `sum_by_p_id` is an individual-level operation -/

/-- C15-Sim.4 `sum_by_p_id` does NOT preserve group-constancy: even if source column and pointer
are constant within the households, the amounts are credited to single persons. (There is no
constancy theorem for `pidSumOp`; `constNode` rejects these nodes.) -/
theorem pidSumOp_not_const :
    (∀ c ∈ [colXhh, { dt := .int, vals := [.i 1, .i 1, .i 3, .i 3] }], ConstOn colHH.ints c) ∧
    pidSumOp [colXhh, { dt := .int, vals := [.i 1, .i 1, .i 3, .i 3] },
        { dt := .int, vals := [.i 1, .i 2, .i 3, .i 4] }] =
      .ok { dt := .float, vals := [.f 7, .f 0, .f 26, .f 0] } ∧
    ¬ ConstOn colHH.ints { dt := .float, vals := [.f 7, .f 0, .f 26, .f 0] } := by decide +kernel

/-! ## 5. the order on groupings -/

/-- C15-Sim.5 `ConstOn` is antitone in the grouping: a column that has one value per coarse group
(household) has one value per fine group (`bg`) of the same table. -/
theorem constOn_antitone (fine coarse : List Int) (c : Col) (hr : Refines fine coarse)
    (hlen : fine.length = coarse.length) (h : ConstOn coarse c) : ConstOn fine c :=
  gc_constOn_antitone hr hlen h

/-- C15-Sim.5a `Refines` is reflexive and (for id lists over the same rows) transitive. -/
theorem refines_refl_trans :
    (∀ g : List Int, Refines g g) ∧
    (∀ a b c : List Int, a.length = b.length → Refines a b → Refines b c → Refines a c) :=
  ⟨gc_refines_refl, fun _ _ _ hlen hab hbc => gc_kerLe_trans hab hlen hbc⟩

example : Refines bgIds colHH.ints ∧ bgIds.length = colHH.ints.length ∧ ConstOn colHH.ints colXhh := by
  decide +kernel
example : ConstOn bgIds colXhh :=
  constOn_antitone bgIds colHH.ints colXhh (by decide +kernel) (by decide +kernel) (by decide +kernel)
/-- not monotone: constant on the `bg`s does not mean constant on the households -/
example : ConstOn bgIds { dt := .int, vals := [.i 1, .i 2, .i 3, .i 3] } ∧
    ¬ ConstOn colHH.ints { dt := .int, vals := [.i 1, .i 2, .i 3, .i 3] } := by decide +kernel

/-! ## 6. lifting through the evaluation of the DAG -/

/-- C15-Sim.6 Let `gid` be a fixed id list (e.g. the data column `hh_id`). Call a node `t` of the
system `sysOf params specs fns` over the data `D` SYNTACTICALLY `gid`-CONSTANT (`constNode`, a
computable check that only inspects the data columns, not the computed ones) if
(a) `t` is a data column that is `ConstOn gid`, or
(b) `t` is a vectorized rule (declared return type or not, rounded or not) or a time conversion,
    and all its free arguments are syntactically `gid`-constant (parameter arguments are constants;
    a rule without free arguments yields a scalar), or
(c) `t` is a grouped aggregation whose group-id argument is a DATA column `g'` over the same rows
    with `Refines gid g'.ints` (whatever its source column is).
Then whatever `t` evaluates to is `ConstOn gid`. (`sum_by_p_id` nodes are never accepted, see
`pidSumOp_not_const`; group ids computed by `groupings.py` are out of scope: id columns are data.) -/
theorem sys_eval_const (params : List (String × Val)) (specs : List (String × RSpec))
    (fns : List Fn) (D : Dag.Data Col) (gid : List Int) (fuel : Nat) (t : String) (v : Col)
    (hc : constNode params fns D gid fuel t = true)
    (h : Dag.eval (sysOf params specs fns) D fuel t = .ok v) : ConstOn gid v :=
  gc_sys_eval_const params specs fns D gid fuel t v hc h

/-- C15-Sim.6a The form of the property. `suffixCheck params fns D fuel` runs the syntactic check
for EVERY function whose name carries a group suffix (`groupIdOf f.name = some "<g>_id"`, the
suffix rule of `_create_aggregate_by_group_functions`) against the id column `<g>_id` of the table
(functions whose id column is not in the data are skipped). If it succeeds, every such computed
column has a single value per group of its id column, repeated for all members of the group. -/
theorem suffix_check_sound (params : List (String × Val)) (specs : List (String × RSpec))
    (fns : List Fn) (D : Dag.Data Col) (fuel : Nat) (hchk : suffixCheck params fns D fuel = true)
    (f : Fn) (hf : f ∈ fns) (g : String) (gc v : Col) (hg : groupIdOf f.name = some g)
    (hD : Dag.find? D g = some gc)
    (h : Dag.eval (sysOf params specs fns) D fuel f.name = .ok v) : ConstOn gc.ints v :=
  gc_suffixCheck_sound params specs fns D fuel hchk f hf g gc v hg hD h

/-! ### non-vacuity: two households of two persons -/

/-- `def r_m_hh(x_hh): return x_hh * 2` -/
private def fDouble (name arg : String) : FunDef :=
  { name := name, args := [arg], body := [.ret (.bin .mul (.name arg) (.const (.int 2)))] }
private def fns0 : List Fn :=
  [ { name := "x_hh", args := ["x", "hh_id"], ann := some .float, kind := .groupAgg .sum (some "x") "hh_id" },
    { name := "r_m_hh", args := ["x_hh"], ann := none, kind := .rule (fDouble "r_m_hh" "x_hh") none none },
    { name := "r_y_hh", args := ["r_m_hh"], ann := none, kind := .timeConv "r_m_hh" .m .y },
    { name := "bad_hh", args := ["x"], ann := some .float, kind := .rule (fDouble "bad_hh" "x") (some .float) none },
    { name := "cnt_bg", args := ["bg_id"], ann := some .int, kind := .groupAgg .count none "bg_id" },
    { name := "recv_hh", args := ["x_hh", "p_id_recv", "p_id"], ann := some .float,
      kind := .pidSum "x_hh" "p_id_recv" } ]
private def D0 : Dag.Data Col :=
  [("x", colX), ("hh_id", colHH), ("bg_id", { dt := .int, vals := bgIds.map .i }),
   ("p_id", { dt := .int, vals := [.i 1, .i 2, .i 3, .i 4] }),
   ("p_id_recv", { dt := .int, vals := [.i 1, .i 1, .i 3, .i 3] })]

example : Dag.eval (sysOf [] [] fns0) D0 5 "r_y_hh" =
    .ok { dt := .float, vals := [.f 84, .f 84, .f 312, .f 312] } := by decide +kernel
/-- the check accepts the aggregate, the rule reading it, and the time conversion of that rule -/
example : constNode [] fns0 D0 colHH.ints 5 "x_hh" = true ∧
    constNode [] fns0 D0 colHH.ints 5 "r_m_hh" = true ∧
    constNode [] fns0 D0 colHH.ints 5 "r_y_hh" = true := by decide +kernel
/-- instance of the theorem -/
example : ConstOn colHH.ints { dt := .float, vals := [.f 84, .f 84, .f 312, .f 312] } :=
  sys_eval_const [] [] fns0 D0 colHH.ints 5 "r_y_hh" _ (by decide +kernel) (by decide +kernel)
/-- the suffix check: it accepts the first three functions and the `bg` count, it rejects the
function set with `bad_hh` (and with the `sum_by_p_id` node `recv_hh`) -/
private def fnsGood : List Fn := fns0.take 3 ++ (fns0.drop 4).take 1
example : fnsGood.map (·.name) = ["x_hh", "r_m_hh", "r_y_hh", "cnt_bg"] ∧
    fnsGood.map (fun f => groupIdOf f.name) = [some "hh_id", some "hh_id", some "hh_id", some "bg_id"] ∧
    suffixCheck [] fnsGood D0 5 = true ∧ suffixCheck [] fns0 D0 5 = false ∧
    suffixCheck [] (fns0.take 4) D0 5 = false := by decide +kernel
/-- instance of `suffix_check_sound` for `r_y_hh` (suffix `_hh`, id column `hh_id`) -/
example : ConstOn colHH.ints { dt := .float, vals := [.f 84, .f 84, .f 312, .f 312] } :=
  suffix_check_sound [] [] fnsGood D0 5 (by decide +kernel)
    { name := "r_y_hh", args := ["r_m_hh"], ann := none, kind := .timeConv "r_m_hh" .m .y }
    (by simp [fnsGood, fns0]) "hh_id" colHH _ (by decide +kernel) (by decide +kernel) (by decide +kernel)
/-- the household aggregate is also accepted as `bg`-constant (`bg ⊑ hh`), a `bg` count is NOT
accepted as household-constant — and indeed it is not -/
example : constNode [] fns0 D0 bgIds 5 "r_y_hh" = true ∧
    constNode [] fns0 D0 colHH.ints 5 "cnt_bg" = false ∧
    Dag.eval (sysOf [] [] fns0) D0 5 "cnt_bg" = .ok { dt := .float, vals := [.f 1, .f 1, .f 2, .f 2] } := by
  decide +kernel
/-- a rule reading the individual column `x` is rejected although its name ends in `_hh`, and the
column it computes indeed varies within the first household; `sum_by_p_id` nodes are rejected -/
example : constNode [] fns0 D0 colHH.ints 5 "bad_hh" = false ∧
    Dag.eval (sysOf [] [] fns0) D0 5 "bad_hh" = .ok { dt := .float, vals := [.f 2, .f 5, .f 6, .f 20] } ∧
    ¬ ConstOn colHH.ints { dt := .float, vals := [.f 2, .f 5, .f 6, .f 20] } ∧
    constNode [] fns0 D0 colHH.ints 5 "recv_hh" = false ∧
    Dag.eval (sysOf [] [] fns0) D0 5 "recv_hh" = .ok { dt := .float, vals := [.f 7, .f 0, .f 26, .f 0] } := by
  decide +kernel

end GV.Simulate
