import GettsimVerif.Lemmas.Dag
/-
Property C04: the value reported for a target does not depend on which other targets are
requested, nor on data columns that the target does not use.

Model: `GV.Dag` (`Core/Dag.lean`). `prune S D fuel T` keeps the ancestors of the targets `T`
(`dags.create_dag`), `run` evaluates the targets in the pruned system. All statements hold for
arbitrary systems, data, fuel and names.
-/
namespace GV.Dag

variable {α : Type}

/-- C04.1 Pruning the system to the ancestors of the targets does not change the value (or the
error) of any target. -/
theorem prune_sound (S : Sys α) (D : Data α) (fuel : Nat) (targets : List Name) (t : Name)
    (ht : t ∈ targets) :
    eval (prune S D fuel targets) D fuel t = eval S D fuel t := by
  symm
  apply eval_congr_reach
  intro x hx
  refine ⟨?_, rfl⟩
  symm
  unfold prune
  apply find?_filter (fun n => (targets.flatMap (reach S D fuel)).contains n)
  simp only [List.contains_eq_mem, List.mem_flatMap, decide_eq_true_eq]
  exact ⟨t, ht, hx⟩

/-- C04.1' Which functions survive pruning: exactly the functions of `S` that are reachable
from some target. -/
theorem prune_spec (S : Sys α) (D : Data α) (fuel : Nat) (targets : List Name) (p : Name × Node α) :
    p ∈ prune S D fuel targets ↔ p ∈ S ∧ ∃ t ∈ targets, p.1 ∈ reach S D fuel t := by
  unfold prune
  simp only [List.mem_filter, List.contains_eq_mem, List.mem_flatMap, decide_eq_true_eq]

/-- C04.1'' `run` is extensionally the evaluation of every target in the UNPRUNED system
(values and errors, first failing target wins). -/
theorem run_eq (S : Sys α) (D : Data α) (fuel : Nat) (T : List Name) :
    run S D fuel T = T.mapM (fun t => do pure (t, ← eval S D fuel t)) := by
  unfold run
  apply mapM_congr_mem
  intro t ht
  rw [prune_sound S D fuel T t ht]

/-- C04.2 The value `run` reports for `t` (i.e. its value in the pruned system) is the same for
any two target lists that contain `t`. -/
theorem targets_indep (S : Sys α) (D : Data α) (fuel : Nat) (T T' : List Name) (t : Name)
    (ht : t ∈ T) (ht' : t ∈ T') :
    eval (prune S D fuel T) D fuel t = eval (prune S D fuel T') D fuel t := by
  rw [prune_sound S D fuel T t ht, prune_sound S D fuel T' t ht']

/-- C04.3' The value listed for a target is its value in the UNPRUNED system: `run` succeeds with `res` iff `res` lists, for each target in order, its name and its value. -/
theorem run_spec (S : Sys α) (D : Data α) (fuel : Nat) (T : List Name) (res : List (Name × α)) :
    run S D fuel T = .ok res ↔
      List.Forall₂ (fun t r => r.1 = t ∧ eval S D fuel t = .ok r.2) T res := by
  unfold run
  rw [mapM_ok_iff]
  have key : ∀ T', (∀ t ∈ T', t ∈ T) →
      (List.Forall₂ (fun t (r : Name × α) =>
          (do pure (t, ← eval (prune S D fuel T) D fuel t) : Except Err (Name × α)) = .ok r) T' res
        ↔ List.Forall₂ (fun t r => r.1 = t ∧ eval S D fuel t = .ok r.2) T' res) := by
    intro T'
    induction T' generalizing res with
    | nil => intro _; simp
    | cons t T' ih =>
      intro hsub
      rw [List.forall₂_cons_left_iff, List.forall₂_cons_left_iff]
      have ht : t ∈ T := hsub t List.mem_cons_self
      have hsub' : ∀ t ∈ T', t ∈ T := fun u hu => hsub u (List.mem_cons_of_mem _ hu)
      constructor
      · rintro ⟨r, rs, hr, hrs, rfl⟩
        refine ⟨r, rs, ?_, (ih rs hsub').1 hrs, rfl⟩
        rw [prune_sound S D fuel T t ht] at hr
        cases he : eval S D fuel t with
        | error e => rw [he] at hr; cases hr
        | ok v => rw [he] at hr; cases hr; exact ⟨rfl, rfl⟩
      · rintro ⟨r, rs, ⟨hr1, hr2⟩, hrs, rfl⟩
        refine ⟨r, rs, ?_, (ih rs hsub').2 hrs, rfl⟩
        rw [prune_sound S D fuel T t ht, hr2, ← hr1]
        rfl
  exact key T (fun _ h => h)

/-- C04.3 A successful `run` returns exactly the requested targets, in the requested order. -/
theorem run_shape (S : Sys α) (D : Data α) (fuel : Nat) (T : List Name) (res : List (Name × α))
    (h : run S D fuel T = .ok res) : res.map (·.1) = T := by
  rw [run_spec] at h
  induction h with
  | nil => rfl
  | cons hr _ ih => simp only [List.map_cons, ih, hr.1]

/-- C04.2' The same on the level of `run`: two successful runs with different target lists
report the same value for a common target. -/
theorem run_targets_indep (S : Sys α) (D : Data α) (fuel : Nat) (T T' : List Name)
    (res res' : List (Name × α)) (h : run S D fuel T = .ok res) (h' : run S D fuel T' = .ok res')
    (t : Name) (v v' : α) (hv : (t, v) ∈ res) (hv' : (t, v') ∈ res') : v = v' := by
  have key : ∀ (T : List Name) (res : List (Name × α)), run S D fuel T = .ok res →
      ∀ v, (t, v) ∈ res → eval S D fuel t = .ok v := by
    intro T res h v hv
    rw [run_spec] at h
    induction h with
    | nil => simp at hv
    | cons hr _ ih =>
      rcases List.mem_cons.1 hv with rfl | hv
      · obtain ⟨hr1, hr2⟩ := hr
        simp only at hr1 hr2
        subst hr1; exact hr2
      · exact ih hv
  have h1 := key T res h v hv
  have h2 := key T' res' h' v' hv'
  rw [h1] at h2
  cases h2; rfl

/-- C04.4 A data column `x` that is not reachable from `t` is irrelevant for `t`: adding it in
front of the data (where it would shadow an older column `x`) changes nothing. -/
theorem extra_data_irrelevant (S : Sys α) (D : Data α) (fuel : Nat) (t x : Name) (c : α)
    (hx : x ∉ reach S D fuel t) :
    eval S ((x, c) :: D) fuel t = eval S D fuel t := by
  symm
  apply eval_congr_reach
  intro y hy
  refine ⟨rfl, ?_⟩
  have : x ≠ y := fun h => hx (h ▸ hy)
  rw [find?_cons_ne c D this]

/-- C04.4' the same for a column appended at the end of the data. -/
theorem extra_data_irrelevant_append (S : Sys α) (D : Data α) (fuel : Nat) (t x : Name) (c : α)
    (hx : x ∉ reach S D fuel t) :
    eval S (D ++ [(x, c)]) fuel t = eval S D fuel t := by
  symm
  apply eval_congr_reach
  intro y hy
  refine ⟨rfl, ?_⟩
  have : x ≠ y := fun h => hx (h ▸ hy)
  rw [find?_append_ne D c this]

/-- C04.4'' general form: two data sets that agree on the names reachable from `t` give the same
value (or error) for `t`; in particular the ORDER of the data columns is irrelevant as long as
the first binding of each reachable name is the same. -/
theorem unused_data_irrelevant (S : Sys α) (D D' : Data α) (fuel : Nat) (t : Name)
    (h : ∀ y ∈ reach S D fuel t, find? D y = find? D' y) :
    eval S D fuel t = eval S D' fuel t :=
  eval_congr_reach S S D D' fuel t (fun y hy => ⟨rfl, h y hy⟩)

/-- C04.5 On the level of `run`: a column not reachable from any requested target does not
change the outcome of the run (values or error). -/
theorem run_extra_data_irrelevant (S : Sys α) (D : Data α) (fuel : Nat) (T : List Name)
    (x : Name) (c : α) (hx : ∀ t ∈ T, x ∉ reach S D fuel t) :
    run S ((x, c) :: D) fuel T = run S D fuel T := by
  rw [run_eq, run_eq]
  apply mapM_congr_mem
  intro t ht
  rw [extra_data_irrelevant S D fuel t x c (hx t ht)]

/-! ### non-vacuity: a 5-node system with one data column `x`, one overridden node `e` -/

private def S0 : Sys Int :=
  [("a", ⟨[], fun _ => .ok 1⟩),
   ("b", ⟨["a", "x"], fun | [a, x] => .ok (a + x) | _ => .error .typeError⟩),
   ("c", ⟨["b"], fun | [b] => .ok (2 * b) | _ => .error .typeError⟩),
   ("d", ⟨["a", "e"], fun | [a, e] => .ok (a - e) | _ => .error .typeError⟩),
   ("e", ⟨[], fun _ => .error .zeroDiv⟩)]
private def D0 : Data Int := [("x", 10), ("e", 4)]

example : eval S0 D0 5 "c" = .ok 22 := by decide
example : eval S0 D0 5 "d" = .ok (-3) := by decide
example : reach S0 D0 5 "c" = ["c", "b", "a", "x"] := by decide
example : (prune S0 D0 5 ["c"]).map (·.1) = ["a", "b", "c"] := by decide
example : (prune S0 D0 5 ["d", "c"]).map (·.1) = ["a", "b", "c", "d", "e"] := by decide
example : run S0 D0 5 ["d", "c"] = .ok [("d", -3), ("c", 22)] := by decide
example : run S0 D0 5 ["c"] = .ok [("c", 22)] := by decide
example : ("c", (22 : Int)) ∈ [("d", (-3 : Int)), ("c", 22)] ∧ ("c", (22 : Int)) ∈ [("c", (22 : Int))] := by
  decide
/-- hypothesis of `extra_data_irrelevant` is satisfiable, and the column would matter elsewhere -/
example : "e" ∉ reach S0 D0 5 "c" ∧ eval S0 (("e", 100) :: D0) 5 "c" = .ok 22 ∧
    eval S0 (("e", 100) :: D0) 5 "d" = .ok (-99) := by decide
/-- a missing root is an error of the target that needs it only -/
example : run S0 [("x", 10)] 5 ["c"] = .ok [("c", 22)] ∧
    run S0 [("x", 10)] 5 ["c", "d"] = .error .zeroDiv := by decide

end GV.Dag
