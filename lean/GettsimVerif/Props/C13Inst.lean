import GettsimVerif.Core.TimeConv
import GettsimVerif.Generated.Config
/-
C13 — instance obligations on constants regenerated from /repo (kernel-decided).
-/
namespace GV.Props.C13Inst
open GV.TimeConv GV.Gen

/-- the constants `_M_PER_Y`, `_W_PER_Y`, `_D_PER_Y` of time_conversion.py are the
documented 12, 365.25/7, 365.25 — the factors the model's `perYear` uses -/
theorem constants_are_documented :
    (mPerY = perYear .m ∧ wPerY = perYear .w ∧ dPerY = perYear .d) ∧
    (perYear .m = 12 ∧ perYear .w = (36525 : Rat) / 100 / 7 ∧ perYear .d = (36525 : Rat) / 100) := by
  decide +kernel

/-- the time units and grouping suffixes the name pattern is built from are the ones
the model's parser knows -/
theorem units_and_groupings_match :
    (supportedTimeUnits = allUnits.map TUnit.toString ∧
     supportedGroupings.map (fun g => "_" ++ g) = groupSuffixes) := by
  decide +kernel

end GV.Props.C13Inst
