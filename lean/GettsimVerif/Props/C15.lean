import GettsimVerif.Lemmas.Levels
import GettsimVerif.Props.C11
/-
Property C15: a column whose name carries a grouping suffix has one value per group.

`constLevels graph fuel n` / `constTable graph` (Core/Levels.lean) compute, for each node of
the dependency graph, levels on whose groups the node's column is constant; the theorems
below show that every such claim holds for every evaluation (`Sat`) of the graph on every
valid population (`Pop.WF`), so a suffixed rule NOT reported by `checkSuffixes` has one
value per group of its suffix level.

Spec vocabulary (`Lemmas/Levels.lean`): `Refines`, `ConstOn`, `Pop.WF`, `rowwiseCol`,
`NodeSem`, `Sat`.
-/
namespace GV.Levels

/-! ## 1. the refinement order -/

/-- C15.0a The computed order is exactly: `hh ⊒ wthh, fg, bg, eg`; `wthh ⊒ bg`; `fg ⊒ bg, eg`;
`ehe ⊒ sn`; reflexive.  (Row `g'`: all `g` with `g' ⊑ g`.) -/
theorem refines_table :
    Level.all.map (fun g' => (g', Level.all.filter (refines g' ·))) =
      [(.hh, [.hh]), (.wthh, [.hh, .wthh]), (.fg, [.hh, .fg]), (.bg, [.hh, .wthh, .fg, .bg]),
       (.eg, [.hh, .wthh, .fg, .bg, .eg]), (.ehe, [.ehe]), (.sn, [.ehe, .sn])] := by decide

/-- C15.0b `refines` is a preorder containing the generating pairs ... -/
theorem refines_preorder :
    (∀ g, refines g g = true) ∧
    (∀ a b c, refines a b = true → refines b c = true → refines a c = true) ∧
    (∀ p ∈ refinesBase, refines p.1 p.2 = true) :=
  ⟨refines_refl, refines_trans, refines_base⟩

/-- C15.0c ... and the least one: it is the reflexive-transitive closure of `refinesBase`. -/
theorem refines_least (R : Level → Level → Prop) (hrefl : ∀ g, R g g)
    (htrans : ∀ a b c, R a b → R b c → R a c) (hbase : ∀ p ∈ refinesBase, R p.1 p.2)
    (a b : Level) (h : refines a b = true) : R a b :=
  refinesFuel_least R hrefl htrans hbase 7 a b h

/-- C15.0d Not in the order: `bg ⋢ eg`, `ehe` is below nothing else, `fg ⋢ wthh`.
(`eg ⊑ bg` is a generating pair: partners are never self-sufficient children — V10 — so a
couple lies inside one needs unit; see `bg_rest_together` / `fg_partner_same` in Props/C12.) -/
theorem refines_excluded :
    refines .bg .eg = false ∧ refines .fg .wthh = false ∧
    (∀ g, refines .ehe g = (g == .ehe)) :=
  ⟨by decide, by decide, fun g => by cases g <;> decide⟩

/-- C15.0e On a valid population (generating pairs assumed) every pair of the order holds. -/
theorem refines_sem (P : Pop) (hP : P.WF) (g' g : Level) (h : refines g' g = true) :
    Refines P.gid g' g := hP.refines h

/-- a concrete valid population (4 persons: a couple, and two singles sharing a flat) -/
example : Pop.WF ⟨4, fun
    | .hh => [0, 0, 1, 1] | .wthh => [0, 0, 1, 2] | .fg => [0, 0, 1, 2] | .bg => [0, 0, 1, 2]
    | .eg => [0, 0, 1, 2] | .ehe => [0, 0, 1, 2] | .sn => [0, 0, 1, 2]⟩ :=
  Pop.valid_WF _ (by decide +kernel)

/-- `Pop.valid` rejects a population whose `bg` is not inside `fg`. -/
example : Pop.valid ⟨2, fun | .fg => [0, 1] | _ => [0, 0]⟩ = false := by decide +kernel

/-! ## 2. the semantic building blocks -/

/-- C15.1 Downward closure: constant per `g`-group and `g' ⊑ g` ⟹ constant per `g'`-group. -/
theorem downward {V : Type} (gid : Level → List Int) (g' g : Level) (col : List V)
    (hr : Refines gid g' g) (hc : ConstOn gid g col) : ConstOn gid g' col :=
  constOn_down hr hc

/-- C15.2 A row-wise function of columns that are constant per `g`-group is constant per
`g`-group. -/
theorem rowwise_const {V : Type} (P : Pop) (hP : P.WF) (g : Level) (f : List (Option V) → V)
    (args : List (List V)) (h : ∀ c ∈ args, ConstOn P.gid g c) :
    ConstOn P.gid g (rowwiseCol P.n f args) :=
  rowwiseCol_const P hP g f args h

/-- C15.3 The result of every grouped aggregation (`Agg.grouped`, C11) by the id column of `g`
is constant per `g`-group: this discharges the `agg` case of `NodeSem`. -/
theorem agg_const {α : Type} (gid : Level → List Int) (g : Level) (f : α → α → α) (dflt : α)
    (col res : List α) (h : Agg.grouped f dflt col (gid g) = .ok res) : ConstOn gid g res := by
  unfold ConstOn
  intro i j a hi hj
  obtain ⟨v, h1, h2⟩ := Agg.grouped_const_within_group f dflt col (gid g) res h i j a hi hj
  rw [h1, h2]

example : Agg.grouped (· + ·) 0 ([1, 2, 3, 4] : List Int) [5, 0, 5, 3] = .ok [4, 2, 4, 4] := by
  decide +kernel

/-- C15.4 `ConstOn` says exactly "one value per group": there is a function from group ids to
values that the column factors through. -/
theorem constOn_iff_group_value {V : Type} (gid : Level → List Int) (g : Level) (col : List V) :
    ConstOn gid g col ↔
      ∃ gv : Int → Option V, ∀ (i : Nat) (a : Int), (gid g)[i]? = some a → col[i]? = gv a := by
  constructor
  · intro h
    refine ⟨fun a => col[(gid g).idxOf a]?, fun i a hi => ?_⟩
    have hmem : a ∈ gid g := List.mem_of_getElem? hi
    have hlt : (gid g).idxOf a < (gid g).length := List.idxOf_lt_length_iff.mpr hmem
    have hk : (gid g)[(gid g).idxOf a]? = some a := by
      rw [List.getElem?_eq_getElem hlt, List.getElem_idxOf hlt]
    exact h i _ a hi hk
  · rintro ⟨gv, hgv⟩
    unfold ConstOn
    intro i j a hi hj
    rw [hgv i a hi, hgv j a hj]

/-- C15.5 The executable checks decide the semantic notions (used on test data). -/
theorem checks_correct {V : Type} [DecidableEq V] (P : Pop) :
    (P.valid = true → P.WF) ∧
    ∀ (g : Level) (col : List V), constOnCols (P.gid g) col = true ↔ ConstOn P.gid g col :=
  ⟨Pop.valid_WF P, fun g col => constOnCols_iff P.gid g col⟩

/-! ## 3. soundness of the analysis -/

/-- C15.6 Soundness of the by-need analysis: on a valid population, for every evaluation of
the graph, every node is constant per `g`-group for every `g` the analysis reports. -/
theorem const_sound {V : Type} (P : Pop) (hP : P.WF) (graph : Graph) (val : Name → List V)
    (hsat : Sat P graph val) (fuel : Nat) (n : Name) (g : Level)
    (hg : g ∈ constLevels graph fuel n) : ConstOn P.gid g (val n) := by
  induction fuel generalizing n g with
  | zero => simp only [constLevels] at hg; cases hg
  | succ k ih =>
    simp only [constLevels] at hg
    cases hf : find? graph n with
    | none => rw [hf] at hg; cases hg
    | some kind =>
      rw [hf] at hg
      exact nodeLevels_sound P hP val (constLevels graph k) (fun a g' h => ih a g' h) n kind
        (hsat (n, kind) (find?_mem hf)) g hg

/-- C15.6' Soundness of the one-pass analysis (any listing order; a useful result needs
dependencies first). -/
theorem constTable_sound {V : Type} (P : Pop) (hP : P.WF) (graph : Graph) (val : Name → List V)
    (hsat : Sat P graph val) (n : Name) (g : Level) (hg : g ∈ lookup (constTable graph) n) :
    ConstOn P.gid g (val n) := by
  simp only [lookup] at hg
  cases hf : find? (constTable graph) n with
  | none => rw [hf] at hg; cases hg
  | some S =>
    rw [hf] at hg
    exact constTable_inv P hP val graph [] hsat (fun _ h => nomatch h) (n, S) (find?_mem hf) g hg

/-- C15.7 The reported sets are downward closed w.r.t. the refinement order. -/
theorem constLevels_downclosed (graph : Graph) (fuel : Nat) (n : Name) (g g' : Level)
    (hg : g ∈ constLevels graph fuel n) (hr : refines g' g = true) :
    g' ∈ constLevels graph fuel n := by
  induction fuel generalizing n g g' with
  | zero => simp only [constLevels] at hg; cases hg
  | succ k ih =>
    simp only [constLevels] at hg ⊢
    cases hf : find? graph n with
    | none => rw [hf] at hg; cases hg
    | some kind =>
      rw [hf] at hg
      exact nodeLevels_downclosed _ (fun a g g' h hr => ih a g g' h hr) kind g g' hg hr

/-- C15.8 Suffix obligation: a node named with the suffix of level `g` that `checkSuffixes`
does not report has one value per `g`-group. -/
theorem suffix_obligation_sound {V : Type} (P : Pop) (hP : P.WF) (graph : Graph)
    (val : Name → List V) (hsat : Sat P graph val) (fuel : Nat) (names : List (Name × Level))
    (n : Name) (g : Level) (hmem : (n, g) ∈ names) (hok : n ∉ checkSuffixes graph fuel names) :
    ConstOn P.gid g (val n) ∧
    ∃ gv : Int → Option V, ∀ (i : Nat) (a : Int), (P.gid g)[i]? = some a → (val n)[i]? = gv a := by
  have hc : ConstOn P.gid g (val n) := by
    apply const_sound P hP graph val hsat fuel n g
    apply Classical.byContradiction
    intro hng
    apply hok
    simp only [checkSuffixes, List.mem_map, List.mem_filter, Bool.not_eq_true',
      List.contains_eq_mem, decide_eq_false_iff_not]
    exact ⟨(n, g), ⟨hmem, hng⟩, rfl⟩
  exact ⟨hc, (constOn_iff_group_value P.gid g (val n)).mp hc⟩

/-- C15.8' If `checkSuffixes` reports nothing, every suffixed node has one value per group. -/
theorem suffix_check_empty {V : Type} (P : Pop) (hP : P.WF) (graph : Graph)
    (val : Name → List V) (hsat : Sat P graph val) (fuel : Nat) (names : List (Name × Level))
    (h : checkSuffixes graph fuel names = []) :
    ∀ ng ∈ names, ConstOn P.gid ng.2 (val ng.1) := by
  intro ng hng
  exact (suffix_obligation_sound P hP graph val hsat fuel names ng.1 ng.2 hng
    (by rw [h]; exact List.not_mem_nil)).1

/-- C15.8'' Same for the one-pass check. -/
theorem suffix_obligation_sound_table {V : Type} (P : Pop) (hP : P.WF) (graph : Graph)
    (val : Name → List V) (hsat : Sat P graph val) (names : List (Name × Level))
    (n : Name) (g : Level) (hmem : (n, g) ∈ names) (hok : n ∉ checkSuffixesT graph names) :
    ConstOn P.gid g (val n) := by
  apply constTable_sound P hP graph val hsat n g
  apply Classical.byContradiction
  intro hng
  apply hok
  simp only [checkSuffixesT, List.mem_map, List.mem_filter, Bool.not_eq_true',
    List.contains_eq_mem, decide_eq_false_iff_not]
  exact ⟨(n, g), ⟨hmem, hng⟩, rfl⟩

/-! ## 4. example: what is reported -/

/-- C15.9 Example graph: `bad_bg` (row-wise, reads an individual-level input) is reported;
`ok_bg` (reads a `_bg` aggregate, a `_hh` input and a parameter) and `ok_m_bg` (time
conversion of it) are not; a `_fg` rule reading a `_bg` column is reported (`fg ⋢ bg`). -/
theorem checkSuffixes_example :
    let graph : Graph :=
      [("alter", .input none), ("miete_hh", .input (some .hh)), ("params", .param),
       ("bg_id", .grouping .bg),
       ("eink_bg", .agg .bg),
       ("ok_bg", .rowwise ["eink_bg", "miete_hh", "params"]),
       ("ok_m_bg", .timeconv "ok_bg"),
       ("bad_bg", .rowwise ["eink_bg", "alter"]),
       ("bad_fg", .rowwise ["eink_bg"]),
       ("p_id_sum", .opaque)]
    let names : List (Name × Level) :=
      [("miete_hh", .hh), ("eink_bg", .bg), ("ok_bg", .bg), ("ok_m_bg", .bg), ("bad_bg", .bg),
       ("bad_fg", .fg)]
    checkSuffixes graph 5 names = ["bad_bg", "bad_fg"] ∧
    checkSuffixesT graph names = ["bad_bg", "bad_fg"] ∧
    constLevels graph 5 "ok_bg" = [.bg, .eg] ∧
    constLevels graph 5 "miete_hh" = [.hh, .wthh, .fg, .bg, .eg] ∧
    constLevels graph 5 "bg_id" = [.bg, .eg] := by
  decide +kernel

end GV.Levels
