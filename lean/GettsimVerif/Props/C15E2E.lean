import GettsimVerif.Lemmas.SimConstE2E
/-
Property C15 at the level of the RESULT TABLE of `compute_taxes_and_transfers`
(`GV.Simulate.simulate`): "every computed column whose name carries a group suffix has a single
value per group, repeated for all members of that group."

Vocabulary (`Lemmas/SimConst.lean`, `Lemmas/SimSpecs.lean`):
* `sp_prep inp`  : the preparation stage of the call; `pr.fns` = the functions that are not
                   overridden by data, `pr.data` = the converted data columns;
* `g.ints`       : the ids of a (converted) data column `g`;
* `constNode params fns D gid fuel t` : the computable syntactic check "node `t` is `gid`-constant"
                   (data column that is constant on the groups of `gid`; rule / time conversion of
                   such nodes; grouped aggregation by a data id column that `gid` refines);
* `suffixCheck`  : `constNode` for EVERY function whose name carries a group suffix, against the id
                   column of that suffix.
The node-level statements are in `Props/C15Sim.lean`.
-/
namespace GV.Simulate
open GV.VecDtype (R DT)
open GV.Lang (Val FunDef)

/-- **C15-E2E.1 A syntactically group-constant target has one value per group in the result
table.** Let the call `compute_taxes_and_transfers(...)` succeed with table `tbl`, let `t` be a
requested target with reported column `col`, let `gidName` be a DATA column of the (converted) input
table with ids `g.ints` (e.g. `hh_id`), all data columns having the same number of rows (`hlen`;
pandas guarantees it for a `DataFrame`, the model does not check it), and let the computable check
`constNode` accept `t` for these ids (fuel = number of functions + 1, which suffices for every
acyclic function set). Then any two rows `i`, `j` with the same id carry the same entry of `col`:
the column has a single value per group, repeated for all members of the group. 0-d results
(rules that depend on parameters only) are covered: they are broadcast to all rows.
(`hlen` is needed only for these: without it a broadcast column could be SHORTER than the id
column.) -/
theorem simulate_const_column (inp : Input) (tbl : Table) (t gidName : String) (pr : Prep) (g : Col)
    (col : Column) (h : simulate inp = .ok tbl) (ht : t ∈ inp.targets) (hpr : sp_prep inp = .ok pr)
    (hg : Dag.find? pr.data gidName = some g)
    (hlen : ∀ c ∈ inp.data, c.2.length = nRowsOf inp)
    (hc : constNode inp.params pr.fns pr.data g.ints (pr.fns.length + 1) t = true)
    (hcol : find? tbl t = some col) :
    ∀ i j : Nat, g.ints[i]? = g.ints[j]? → g.ints[i]?.isSome → col[i]? = col[j]? := by
  obtain ⟨pr', v, hpr', hv, hfind⟩ := simulate_value_unpruned inp tbl t h ht
  have hpr'' : sp_prep inp = .ok pr' := hpr'
  rw [hpr] at hpr''
  cases hpr''
  rw [hcol] at hfind
  cases hfind
  have hconst := ce_full_eval_const inp.params pr.fns pr.data g.ints _ t v hc hv
  obtain ⟨hn, hdl⟩ := sp_data_len hpr hlen
  have hle : g.ints.length ≤ sp_nRows pr := by
    rw [hn, Col.ints_length, hdl gidName g hg]
  exact ce_render_kerLe hle hconst

/-- **C15-E2E.2 The property itself: under the suffix check, EVERY requested column whose name
carries a group suffix is constant on the groups of its id column.** Let the call succeed, all data
columns having the same number of rows, and let `suffixCheck` accept the prepared function set
(every function whose name ends in `_<g>` — the suffix rule `groupIdOf` of
`_create_aggregate_by_group_functions` — with `<g>_id` among the data columns is syntactically
constant on the groups of `<g>_id`). Then for every requested target `t` whose name carries a
group suffix `_<g>` such that `<g>_id` is a data column (`gidName`, ids `g.ints`), the reported
column of `t` has a single value per group of `<g>_id`, repeated for all members of the group. -/
theorem simulate_suffix_columns (inp : Input) (tbl : Table) (pr : Prep)
    (h : simulate inp = .ok tbl) (hpr : sp_prep inp = .ok pr)
    (hlen : ∀ c ∈ inp.data, c.2.length = nRowsOf inp)
    (hchk : suffixCheck inp.params pr.fns pr.data (pr.fns.length + 1) = true) :
    ∀ (t gidName : String) (g : Col) (col : Column), t ∈ inp.targets →
      groupIdOf t = some gidName → Dag.find? pr.data gidName = some g → find? tbl t = some col →
      ∀ i j : Nat, g.ints[i]? = g.ints[j]? → g.ints[i]?.isSome → col[i]? = col[j]? := by
  intro t gidName g col ht hgid hg hcol
  obtain ⟨_, f, hf⟩ := sp_target_fn hpr ht
  have hmem := (findFn?_some hf).1
  have hname := (findFn?_some hf).2
  have := List.all_eq_true.1 hchk f hmem
  rw [hname] at this
  simp only [hgid, hg] at this
  exact simulate_const_column inp tbl t gidName pr g col h ht hpr hg hlen this hcol

/-! ## explicitly specified aggregations at table level (`max`, `min`, `any`, `all`, `count`)

In the style of `simulate_group_sum` (`Props/SimSpecs.lean`): row `i` of the aggregate holds the
aggregate of the requested source column over the rows with the same id. `Agg.members ids col k` =
the entries `col[j]` with `ids[j] = k`, in row order. Unlike for sums, a scalar source is rejected
by the real code (and by the model), so no length hypothesis on the data is needed. -/

/-- **A requested `max` aggregation holds, in every row, the maximum of the requested float source
column over the rows of the same group.** Let the call succeed, let the targets contain `s` and
`x`, where `x` is specified as `{"aggr": "max", "source_col": s}` with id column `gid` a DATA column
(`g.ints` its ids), and let the reported column of `s` be the float column `qs`. Then the column of
`x` is `g.ints.map fun k => max of (members g.ints qs k)`; and that value is an entry of the group
and an upper bound of all entries of the group. -/
theorem simulate_group_max (inp : Input) (tbl : Table) (s x gid : String) (pr : Prep) (f : Fn) (g : Col)
    (qs : List Rat) (h : simulate inp = .ok tbl) (hs : s ∈ inp.targets) (hx : x ∈ inp.targets)
    (hpr : sp_prep inp = .ok pr) (hf : findFn? pr.fns x = some f)
    (hk : f.kind = .groupAgg .max (some s) gid) (hg : Dag.find? pr.data gid = some g)
    (hcs : find? tbl s = some (qs.map Val.flt)) :
    find? tbl x = some (g.ints.map fun k => Val.flt (Agg.groupVal max 0 (Agg.members g.ints qs k))) ∧
    ∀ k ∈ g.ints, Agg.groupVal max 0 (Agg.members g.ints qs k) ∈ Agg.members g.ints qs k ∧
      ∀ q ∈ Agg.members g.ints qs k, q ≤ Agg.groupVal max 0 (Agg.members g.ints qs k) := by
  obtain ⟨col, out, htyped, hcs', hbody, hcx⟩ :=
    ce_group_agg_core h hs hx hpr hf hk (by decide) (by decide) hg
  rw [hcs] at hcs'
  have hq := sp_map_rToVal_flt _ _ (Option.some.inj hcs').symm
  obtain ⟨hl, hv⟩ := ce_aggBody_max hbody
  rw [ce_rats_of_flt col qs hq] at hl hv
  refine ⟨?_, fun k hk => Agg.groupVal_max_spec 0 _ (Agg.members_ne_nil _ _ _ hl hk)⟩
  rw [hcx, hv, List.map_map]
  congr 1
  apply List.map_congr_left
  intro k hk
  have hdt : col.dt = .float := by
    cases qs with
    | nil =>
      have hnil : g.ints = [] := List.eq_nil_of_length_eq_zero (by simpa using hl)
      rw [hnil] at hk
      cases hk
    | cons q qs => exact (htyped (R.f q) (by rw [hq]; exact List.mem_cons_self)).symm
  simp only [Function.comp, hdt, ofRat, rToVal]

/-- **… the same for `min`**: the minimum of the requested float source column over the rows of
the same group, which is an entry of the group and a lower bound of all its entries. -/
theorem simulate_group_min (inp : Input) (tbl : Table) (s x gid : String) (pr : Prep) (f : Fn) (g : Col)
    (qs : List Rat) (h : simulate inp = .ok tbl) (hs : s ∈ inp.targets) (hx : x ∈ inp.targets)
    (hpr : sp_prep inp = .ok pr) (hf : findFn? pr.fns x = some f)
    (hk : f.kind = .groupAgg .min (some s) gid) (hg : Dag.find? pr.data gid = some g)
    (hcs : find? tbl s = some (qs.map Val.flt)) :
    find? tbl x = some (g.ints.map fun k => Val.flt (Agg.groupVal min 0 (Agg.members g.ints qs k))) ∧
    ∀ k ∈ g.ints, Agg.groupVal min 0 (Agg.members g.ints qs k) ∈ Agg.members g.ints qs k ∧
      ∀ q ∈ Agg.members g.ints qs k, Agg.groupVal min 0 (Agg.members g.ints qs k) ≤ q := by
  obtain ⟨col, out, htyped, hcs', hbody, hcx⟩ :=
    ce_group_agg_core h hs hx hpr hf hk (by decide) (by decide) hg
  rw [hcs] at hcs'
  have hq := sp_map_rToVal_flt _ _ (Option.some.inj hcs').symm
  obtain ⟨hl, hv⟩ := ce_aggBody_min hbody
  rw [ce_rats_of_flt col qs hq] at hl hv
  refine ⟨?_, fun k hk => Agg.groupVal_min_spec 0 _ (Agg.members_ne_nil _ _ _ hl hk)⟩
  rw [hcx, hv, List.map_map]
  congr 1
  apply List.map_congr_left
  intro k hk
  have hdt : col.dt = .float := by
    cases qs with
    | nil =>
      have hnil : g.ints = [] := List.eq_nil_of_length_eq_zero (by simpa using hl)
      rw [hnil] at hk
      cases hk
    | cons q qs => exact (htyped (R.f q) (by rw [hq]; exact List.mem_cons_self)).symm
  simp only [Function.comp, hdt, ofRat, rToVal]

/-- **A requested `any` aggregation is `True` exactly in the rows whose group contains a `True`**
of the requested Boolean source column `bs`. -/
theorem simulate_group_any (inp : Input) (tbl : Table) (s x gid : String) (pr : Prep) (f : Fn) (g : Col)
    (bs : List Bool) (h : simulate inp = .ok tbl) (hs : s ∈ inp.targets) (hx : x ∈ inp.targets)
    (hpr : sp_prep inp = .ok pr) (hf : findFn? pr.fns x = some f)
    (hk : f.kind = .groupAgg .any (some s) gid) (hg : Dag.find? pr.data gid = some g)
    (hcs : find? tbl s = some (bs.map Val.bool)) :
    find? tbl x = some (g.ints.map fun k => Val.bool ((Agg.members g.ints bs k).any id)) := by
  obtain ⟨col, out, _, hcs', hbody, hcx⟩ :=
    ce_group_agg_core h hs hx hpr hf hk (by decide) (by decide) hg
  rw [hcs] at hcs'
  have hq := sp_map_rToVal_bool _ _ (Option.some.inj hcs').symm
  obtain ⟨_, hv⟩ := ce_aggBody_any hbody
  rw [ce_bools_of_bool col bs hq] at hv
  rw [hcx, hv, List.map_map]
  rfl

/-- **A requested `all` aggregation is `True` exactly in the rows whose group consists of `True`s
only** (requested Boolean source column `bs`). -/
theorem simulate_group_all (inp : Input) (tbl : Table) (s x gid : String) (pr : Prep) (f : Fn) (g : Col)
    (bs : List Bool) (h : simulate inp = .ok tbl) (hs : s ∈ inp.targets) (hx : x ∈ inp.targets)
    (hpr : sp_prep inp = .ok pr) (hf : findFn? pr.fns x = some f)
    (hk : f.kind = .groupAgg .all (some s) gid) (hg : Dag.find? pr.data gid = some g)
    (hcs : find? tbl s = some (bs.map Val.bool)) :
    find? tbl x = some (g.ints.map fun k => Val.bool ((Agg.members g.ints bs k).all id)) := by
  obtain ⟨col, out, _, hcs', hbody, hcx⟩ :=
    ce_group_agg_core h hs hx hpr hf hk (by decide) (by decide) hg
  rw [hcs] at hcs'
  have hq := sp_map_rToVal_bool _ _ (Option.some.inj hcs').symm
  obtain ⟨_, hv⟩ := ce_aggBody_all hbody
  rw [ce_bools_of_bool col bs hq] at hv
  rw [hcx, hv, List.map_map]
  rfl

/-- **A requested `count` aggregation holds, in every row, the number of rows with the same id**
(as a float: `npg.aggregate(group_id, numpy.ones(n))`), the id column `gid` being a DATA column. -/
theorem simulate_group_count (inp : Input) (tbl : Table) (x gid : String) (pr : Prep) (f : Fn) (g : Col)
    (h : simulate inp = .ok tbl) (hx : x ∈ inp.targets)
    (hpr : sp_prep inp = .ok pr) (hf : findFn? pr.fns x = some f)
    (hk : f.kind = .groupAgg .count none gid) (hg : Dag.find? pr.data gid = some g) :
    find? tbl x = some (g.ints.map fun k =>
      Val.flt (((Agg.members g.ints g.ints k).length : Int) : Rat)) :=
  ce_group_count_core h hx hpr hf hk hg


/-! ### non-vacuity: two households of two persons -/

namespace C15E2EExamples
open GV.Lang

/-- `def r_m_hh(x_hh): return x_hh * 2`; `x_hh` is the automatic group sum of the individual
column `x`, `r_y_hh` the time conversion of `r_m_hh`; `bad_hh(x) = x * 2` reads the individual
column although its name ends in `_hh` -/
def rGood : Rule := Examples.rule "r_m_hh" ["x_hh"] (Examples.mul (Examples.nm "x_hh") (Examples.it 2))
def rBad : Rule := Examples.rule "bad_hh" ["x"] (Examples.mul (Examples.nm "x") (Examples.it 2)) (some .float)

def data4 : List (String × Column) :=
  [("p_id", Examples.I [1, 2, 3, 4]), ("hh_id", Examples.I [7, 7, 3, 3]),
   ("x", Examples.F [1, 5/2, 3, 10])]

def sysGood : Input :=
  { rules := [rGood], data := data4, targets := ["x_hh", "r_m_hh", "r_y_hh"] }
def sysBad : Input :=
  { rules := [rGood, rBad], data := data4, targets := ["x_hh", "r_m_hh", "r_y_hh", "bad_hh"] }

/-- all hypotheses of `simulate_const_column` for target `t` and id column `gidName`, as one
computable Boolean -/
def hypsConst (inp : Input) (t gidName : String) : Bool :=
  match simulate inp, sp_prep inp with
  | .ok _, .ok pr =>
    match Dag.find? pr.data gidName with
    | some g => constNode inp.params pr.fns pr.data g.ints (pr.fns.length + 1) t
    | none => false
  | _, _ => false

/-- all hypotheses of `simulate_suffix_columns`, as one computable Boolean -/
def hypsSuffix (inp : Input) : Bool :=
  match simulate inp, sp_prep inp with
  | .ok _, .ok pr => suffixCheck inp.params pr.fns pr.data (pr.fns.length + 1)
  | _, _ => false

theorem hypsConst_spec {inp : Input} {t gidName : String} (h : hypsConst inp t gidName = true) :
    ∃ tbl pr g, simulate inp = .ok tbl ∧ sp_prep inp = .ok pr ∧ Dag.find? pr.data gidName = some g ∧
      constNode inp.params pr.fns pr.data g.ints (pr.fns.length + 1) t = true := by
  unfold hypsConst at h
  split at h
  · rename_i tbl pr hs hp
    split at h
    · rename_i g hg
      exact ⟨tbl, pr, g, hs, hp, hg, h⟩
    · cases h
  · cases h

theorem hypsSuffix_spec {inp : Input} (h : hypsSuffix inp = true) :
    ∃ tbl pr, simulate inp = .ok tbl ∧ sp_prep inp = .ok pr ∧
      suffixCheck inp.params pr.fns pr.data (pr.fns.length + 1) = true := by
  unfold hypsSuffix at h
  split at h
  · rename_i tbl pr hs hp
    exact ⟨tbl, pr, hs, hp, h⟩
  · cases h

/-- the data columns have the same number of rows (4) -/
example : ∀ c ∈ sysGood.data, c.2.length = nRowsOf sysGood := by decide

/-- the hypotheses of `simulate_const_column` are satisfiable for all three targets (the group
sum, the rule reading it, the time conversion of that rule) -/
example : ∃ tbl pr g, simulate sysGood = .ok tbl ∧ sp_prep sysGood = .ok pr ∧
    Dag.find? pr.data "hh_id" = some g ∧
    constNode sysGood.params pr.fns pr.data g.ints (pr.fns.length + 1) "r_y_hh" = true ∧
    "r_y_hh" ∈ sysGood.targets :=
  let ⟨tbl, pr, g, a, b, c, d⟩ := hypsConst_spec (inp := sysGood) (t := "r_y_hh") (gidName := "hh_id")
    (by decide +kernel)
  ⟨tbl, pr, g, a, b, c, d, by decide⟩

example : hypsConst sysGood "x_hh" "hh_id" = true ∧ hypsConst sysGood "r_m_hh" "hh_id" = true := by
  decide +kernel

/-- the hypotheses of `simulate_suffix_columns` are satisfiable: all three targets carry the suffix
`_hh`, `hh_id` is a data column, the suffix check succeeds -/
example : ∃ tbl pr, simulate sysGood = .ok tbl ∧ sp_prep sysGood = .ok pr ∧
    suffixCheck sysGood.params pr.fns pr.data (pr.fns.length + 1) = true :=
  hypsSuffix_spec (by decide +kernel)

example : sysGood.targets.map groupIdOf = [some "hh_id", some "hh_id", some "hh_id"] := by
  decide +kernel

/-- … and the columns are real ones: `x_hh = [3.5, 3.5, 13, 13]`, `r_m_hh` twice that,
`r_y_hh = 12 · r_m_hh` — one value per household -/
example : (match simulate sysGood with
    | .ok t =>
      ((find? t "x_hh").map (·.map Examples.fmtVal)) ==
        some ["3.500000", "3.500000", "13.000000", "13.000000"] &&
      ((find? t "r_m_hh").map (·.map Examples.fmtVal)) ==
        some ["7.000000", "7.000000", "26.000000", "26.000000"] &&
      ((find? t "r_y_hh").map (·.map Examples.fmtVal)) ==
        some ["84.000000", "84.000000", "312.000000", "312.000000"]
    | _ => false) = true := by decide +kernel

/-- the check is not trivially true: the rule `bad_hh` reads the individual column `x`; the call
succeeds, the check rejects `bad_hh` (and so does the suffix check for the whole function set),
and the reported column indeed varies within both households -/
example : hypsConst sysBad "bad_hh" "hh_id" = false ∧ hypsSuffix sysBad = false ∧
    hypsConst sysBad "r_y_hh" "hh_id" = true ∧
    (match simulate sysBad with
    | .ok t => ((find? t "bad_hh").map (·.map Examples.fmtVal)) ==
        some ["2.000000", "5.000000", "6.000000", "20.000000"]
    | _ => false) = true := by decide +kernel

/-! #### the aggregation theorems -/

/-- `v(x) = x` (float), `flag(x) = x > 2` (bool) and the five user specs over them -/
def sysAgg : Input :=
  { rules := [Examples.rule "v" ["x"] (Examples.nm "x") (some .float), Examples.flag],
    data := data4,
    groupSpecs := [("vmax_hh", ⟨.max, some "v"⟩), ("vmin_hh", ⟨.min, some "v"⟩),
      ("fany_hh", ⟨.any, some "flag"⟩), ("fall_hh", ⟨.all, some "flag"⟩), ("n_hh", ⟨.count, none⟩)],
    targets := ["v", "flag", "vmax_hh", "vmin_hh", "fany_hh", "fall_hh", "n_hh"] }

def isFlt : Column → List Rat → Bool
  | [], [] => true
  | .flt q :: c, q' :: qs => decide (q = q') && isFlt c qs
  | _, _ => false

def isBool : Column → List Bool → Bool
  | [], [] => true
  | .bool b :: c, b' :: bs => decide (b = b') && isBool c bs
  | _, _ => false

theorem isFlt_spec : ∀ (c : Column) (qs : List Rat), isFlt c qs = true → c = qs.map Val.flt := by
  intro c qs
  fun_induction isFlt c qs with
  | case1 => intro _; rfl
  | case2 q c q' qs ih =>
    intro h
    simp only [Bool.and_eq_true, decide_eq_true_eq] at h
    rw [h.1, ih h.2]
    rfl
  | case3 => intro h; cases h

theorem isBool_spec : ∀ (c : Column) (bs : List Bool), isBool c bs = true → c = bs.map Val.bool := by
  intro c bs
  fun_induction isBool c bs with
  | case1 => intro _; rfl
  | case2 b c b' bs ih =>
    intro h
    simp only [Bool.and_eq_true, decide_eq_true_eq] at h
    rw [h.1, ih h.2]
    rfl
  | case3 => intro h; cases h

/-- the hypotheses of the aggregation theorems for the aggregate `x` of kind `a` over `src`, as one
computable Boolean (`okSrc` checks the reported source column) -/
def hypsAgg (inp : Input) (a : Aggr) (src : Option String) (x gid : String)
    (okSrc : Column → Bool) : Bool :=
  match simulate inp, sp_prep inp with
  | .ok tbl, .ok pr =>
    (match findFn? pr.fns x with
      | some f => (match f.kind with
        | .groupAgg a' s' gid' => decide (a' = a) && decide (s' = src) && decide (gid' = gid)
        | _ => false)
      | none => false) &&
    (Dag.find? pr.data gid).isSome &&
    (match src with
      | some s => (match find? tbl s with | some c => okSrc c | none => false)
      | none => true)
  | _, _ => false

theorem hypsAgg_spec {inp : Input} {a : Aggr} {s x gid : String} {okSrc : Column → Bool}
    (h : hypsAgg inp a (some s) x gid okSrc = true) :
    ∃ tbl pr f g c, simulate inp = .ok tbl ∧ sp_prep inp = .ok pr ∧ findFn? pr.fns x = some f ∧
      f.kind = .groupAgg a (some s) gid ∧ Dag.find? pr.data gid = some g ∧
      find? tbl s = some c ∧ okSrc c = true := by
  unfold hypsAgg at h
  split at h
  · rename_i tbl pr hs hp
    simp only [Bool.and_eq_true] at h
    obtain ⟨⟨h1, h2⟩, h3⟩ := h
    split at h1
    · rename_i f hf
      split at h1
      · rename_i a' s' gid' hk
        simp only [Bool.and_eq_true, decide_eq_true_eq] at h1
        obtain ⟨⟨rfl, rfl⟩, rfl⟩ := h1
        cases hg : Dag.find? pr.data gid' with
        | none => rw [hg] at h2; cases h2
        | some g =>
          split at h3
          · rename_i c hc
            exact ⟨tbl, pr, f, g, c, hs, hp, hf, hk, hg, hc, h3⟩
          · cases h3
      · cases h1
    · cases h1
  · cases h

/-- the hypotheses of `simulate_group_max` are satisfiable (source column `v = [1, 2.5, 3, 10]`) -/
example : ∃ tbl pr f g, simulate sysAgg = .ok tbl ∧ sp_prep sysAgg = .ok pr ∧
    findFn? pr.fns "vmax_hh" = some f ∧ f.kind = .groupAgg .max (some "v") "hh_id" ∧
    Dag.find? pr.data "hh_id" = some g ∧
    find? tbl "v" = some (([1, 5/2, 3, 10] : List Rat).map Val.flt) :=
  let ⟨tbl, pr, f, g, c, h1, h2, h3, h4, h5, h6, h7⟩ := hypsAgg_spec (inp := sysAgg) (a := .max) (s := "v")
    (x := "vmax_hh") (gid := "hh_id") (okSrc := fun c => isFlt c [1, 5/2, 3, 10]) (by decide +kernel)
  ⟨tbl, pr, f, g, h1, h2, h3, h4, h5, by rw [h6, isFlt_spec _ _ h7]⟩

/-- … and those of `simulate_group_min`, `simulate_group_any`, `simulate_group_all`,
`simulate_group_count` (in the computable form, see `hypsAgg_spec`) -/
example : hypsAgg sysAgg .min (some "v") "vmin_hh" "hh_id" (fun c => isFlt c [1, 5/2, 3, 10]) = true ∧
    hypsAgg sysAgg .any (some "flag") "fany_hh" "hh_id" (fun c => isBool c [false, true, true, true]) = true ∧
    hypsAgg sysAgg .all (some "flag") "fall_hh" "hh_id" (fun c => isBool c [false, true, true, true]) = true ∧
    hypsAgg sysAgg .count none "n_hh" "hh_id" (fun _ => true) = true := by decide +kernel

/-- the columns: the maximum / minimum / any / all / number of rows per household (`hh_id =
[7, 7, 3, 3]`) -/
example : (match simulate sysAgg with
    | .ok t =>
      ((find? t "vmax_hh").map (·.map Examples.fmtVal)) ==
        some ["2.500000", "2.500000", "10.000000", "10.000000"] &&
      ((find? t "vmin_hh").map (·.map Examples.fmtVal)) ==
        some ["1.000000", "1.000000", "3.000000", "3.000000"] &&
      ((find? t "fany_hh").map (·.map Examples.fmtVal)) == some ["True", "True", "True", "True"] &&
      ((find? t "fall_hh").map (·.map Examples.fmtVal)) == some ["False", "False", "True", "True"] &&
      ((find? t "n_hh").map (·.map Examples.fmtVal)) ==
        some ["2.000000", "2.000000", "2.000000", "2.000000"]
    | _ => false) = true := by decide +kernel

end C15E2EExamples

end GV.Simulate
