import GettsimVerif.Lemmas.SimMisc
/-
Property C20 for the CONCRETE end-to-end model `GV.Simulate.simulate`: the checks that
`_process_and_check_data` performs on the data (`checkData`) reject exactly the malformed tables,
always with a `ValueError`, and the conversion of the data columns to the internal types
(`convertCol`, `convertData` = `_convert_data_to_correct_types`) never changes a value silently.
-/
namespace GV.Simulate
open GV.VecDtype (R DT numOf)

/-! ## the meaning of `constantWithinGroups` -/

/-- `col.groupby(id).transform("max") == col` holds for all rows iff any two rows with the same
group id carry the same value (rows = the positions present in both columns). -/
theorem constantWithinGroups_iff (gid col : List Rat) :
    constantWithinGroups gid col = true ↔
      ∀ (i j : Nat) (hi : i < gid.length) (hi' : i < col.length) (hj : j < gid.length)
        (hj' : j < col.length), gid[i] = gid[j] → col[i] = col[j] := by
  rw [mi_constantWithinGroups_iff, mi_ConstWithin_index]

/-! ## `checkData` -/

/-- **What a table that passes `_process_and_check_data` looks like.** The checks succeed iff
* the column names are distinct,
* there is a column `p_id` and its values are distinct,
* for each of the four foreign-key columns (`p_id_ehepartner`, `p_id_einstandspartner`,
  `p_id_elternteil_1`, `p_id_elternteil_2`) that is present: every value is `-1` or one of the
  `p_id`s, and no row points to itself,
* for every grouping suffix `g` (`_hh`, `_wthh`, `_fg`, `_bg`, `_eg`, `_ehe`, `_sn`) whose id column
  `<g>_id` is present: every column whose name ends in `g` is constant within the groups of that
  id column (`idc[i] = idc[j] → col[i] = col[j]`). -/
theorem checkData_ok_iff (data : List (String × Col)) :
    checkData data = .ok () ↔
      (data.map (·.1)).Nodup ∧
      (∃ pid, find? data "p_id" = some pid ∧ pid.rats.Nodup ∧
        ∀ fk ∈ foreignKeys, ∀ c, find? data fk = some c →
          (∀ k ∈ c.rats, k = -1 ∨ k ∈ pid.rats) ∧
          (∀ (i : Nat) (hi : i < c.rats.length) (hi' : i < pid.rats.length), c.rats[i] ≠ pid.rats[i])) ∧
      (∀ g ∈ groupSuffixes, ∀ idc, find? data ((g.drop 1).toString ++ "_id") = some idc →
        ∀ n c, (n, c) ∈ data → endsWith n g = true →
          ∀ (i j : Nat) (hi : i < idc.rats.length) (hi' : i < c.rats.length) (hj : j < idc.rats.length)
            (hj' : j < c.rats.length), idc.rats[i] = idc.rats[j] → c.rats[i] = c.rats[j]) := by
  rw [mi_checkData_ok_iff, mi_checkB_iff]
  refine and_congr Iff.rfl (and_congr ?_ ?_)
  · refine exists_congr fun pid => and_congr Iff.rfl (and_congr Iff.rfl ?_)
    refine forall₂_congr fun fk _ => forall₂_congr fun c _ => and_congr Iff.rfl ?_
    exact mi_forall_mem_zip c.rats pid.rats (fun k p => k ≠ p)
  · refine forall₂_congr fun g _ => forall₂_congr fun idc _ => forall₂_congr fun n c => ?_
    refine forall₂_congr fun _ _ => ?_
    exact mi_ConstWithin_index _ _

/-- **Every failure of the data checks is a `ValueError`.** -/
theorem checkData_error_is_valueError (data : List (String × Col)) (e : Err)
    (h : checkData data = .error e) : e = .valueError := by
  have := mi_checkData_error data (by rw [h]; exact fun h' => by cases h')
  rw [h] at this
  cases this
  rfl

/-- two data columns with the same name: `ValueError` -/
theorem checkData_rejects_duplicate_columns (data : List (String × Col))
    (h : ¬ (data.map (·.1)).Nodup) : checkData data = .error .valueError :=
  mi_checkData_error data fun hok => h ((checkData_ok_iff data).1 hok).1

/-- no column `p_id`: `ValueError` -/
theorem checkData_rejects_missing_pid (data : List (String × Col))
    (h : find? data "p_id" = none) : checkData data = .error .valueError :=
  mi_checkData_error data fun hok => by
    obtain ⟨_, ⟨pid, hp, _⟩, _⟩ := (checkData_ok_iff data).1 hok
    rw [h] at hp
    cases hp

/-- two rows with the same `p_id`: `ValueError` -/
theorem checkData_rejects_duplicate_pid (data : List (String × Col)) (pid : Col)
    (hp : find? data "p_id" = some pid) (h : ¬ pid.rats.Nodup) :
    checkData data = .error .valueError :=
  mi_checkData_error data fun hok => by
    obtain ⟨_, ⟨pid', hp', hnd, _⟩, _⟩ := (checkData_ok_iff data).1 hok
    rw [hp] at hp'
    cases hp'
    exact h hnd

/-- a foreign key that is neither `-1` nor the `p_id` of some row: `ValueError` -/
theorem checkData_rejects_dangling_key (data : List (String × Col)) (pid c : Col) (fk : String) (k : Rat)
    (hp : find? data "p_id" = some pid) (hfk : fk ∈ foreignKeys) (hc : find? data fk = some c)
    (hk : k ∈ c.rats) (h1 : k ≠ -1) (h2 : k ∉ pid.rats) :
    checkData data = .error .valueError :=
  mi_checkData_error data fun hok => by
    obtain ⟨_, ⟨pid', hp', _, hall⟩, _⟩ := (checkData_ok_iff data).1 hok
    rw [hp] at hp'
    cases hp'
    rcases (hall fk hfk c hc).1 k hk with h | h
    · exact h1 h
    · exact h2 h

/-- a row whose foreign key is its own `p_id`: `ValueError` -/
theorem checkData_rejects_self_reference (data : List (String × Col)) (pid c : Col) (fk : String)
    (hp : find? data "p_id" = some pid) (hfk : fk ∈ foreignKeys) (hc : find? data fk = some c)
    (i : Nat) (hi : i < c.rats.length) (hi' : i < pid.rats.length) (h : c.rats[i] = pid.rats[i]) :
    checkData data = .error .valueError :=
  mi_checkData_error data fun hok => by
    obtain ⟨_, ⟨pid', hp', _, hall⟩, _⟩ := (checkData_ok_iff data).1 hok
    rw [hp] at hp'
    cases hp'
    exact (hall fk hfk c hc).2 i hi hi' h

/-- a column with a group suffix that takes two values inside one group: `ValueError` -/
theorem checkData_rejects_nonconstant_group (data : List (String × Col)) (g : String) (idc c : Col)
    (n : String) (hg : g ∈ groupSuffixes) (hid : find? data ((g.drop 1).toString ++ "_id") = some idc)
    (hn : (n, c) ∈ data) (he : endsWith n g = true)
    (i j : Nat) (hi : i < idc.rats.length) (hi' : i < c.rats.length) (hj : j < idc.rats.length)
    (hj' : j < c.rats.length) (h1 : idc.rats[i] = idc.rats[j]) (h2 : c.rats[i] ≠ c.rats[j]) :
    checkData data = .error .valueError :=
  mi_checkData_error data fun hok =>
    h2 (((checkData_ok_iff data).1 hok).2.2 g hg idc hid n c hn he i j hi hi' hj hj' h1)

/-! ## conversion of one column -/

/-- **The conversion to the internal type is lossless.** If `convert_series_to_internal_type`
succeeds, the column has the requested dtype, the same number of rows, and the NUMERIC value of
every entry is unchanged. (Hypothesis: a column of dtype `bool` only contains Booleans — every
column produced by the dtype inference `colOfData` is of this kind, see `colOfData_wellTyped`; the
model's `Col` does not enforce it and a `bool`-tagged column holding `0.5` would be truncated by
the unchecked cast `bool → int`.) -/
theorem convertCol_lossless (t : Ty) (c c' : Col)
    (hwt : c.dt = .bool → ∀ r ∈ c.vals, VecDtype.dtypeOf r = .bool)
    (h : convertCol t c = .ok c') :
    c'.vals.length = c.vals.length ∧
      (∀ i : Nat, (c'.vals[i]?).map numOf = (c.vals[i]?).map numOf) ∧ c'.dt = t.toDT :=
  mi_convertCol_lossless hwt h

/-- the columns built from the user's data have entries of the column's dtype only -/
theorem colOfData_wellTyped (c : Column) (col : Col) (h : colOfData c = .ok col) :
    ∀ r ∈ col.vals, VecDtype.dtypeOf r = col.dt :=
  mi_colOfData_wellTyped h

/-- a float column with a non-integral value is rejected for `int` -/
theorem convertCol_rejects_fraction (c : Col) (hdt : c.dt = .float) (q : Rat) (hq : q ∈ c.rats)
    (hfrac : isIntegral q = false) : convertCol .int c = .error .valueError := by
  unfold convertCol
  rw [if_neg (by rw [hdt]; decide), hdt]
  simp only
  rw [if_neg]
  intro hall
  rw [List.all_eq_true] at hall
  rw [hall q hq] at hfrac
  cases hfrac

/-- a (non-Boolean) column with a value other than 0 and 1 is rejected for `bool` -/
theorem convertCol_rejects_non01 (c : Col) (hdt : c.dt ≠ .bool) (q : Rat) (hq : q ∈ c.rats)
    (h0 : q ≠ 0) (h1 : q ≠ 1) : convertCol .bool c = .error .valueError := by
  unfold convertCol
  rw [if_neg (show ¬ c.dt = Ty.bool.toDT from hdt)]
  simp only
  rw [if_neg]
  intro hall
  rw [List.all_eq_true] at hall
  have := hall q hq
  simp only [Bool.or_eq_true, decide_eq_true_eq] at this
  rcases this with h | h
  · exact h0 h
  · exact h1 h

/-- a Boolean column is rejected for `float` -/
theorem convertCol_rejects_bool_to_float (c : Col) (hdt : c.dt = .bool) :
    convertCol .float c = .error .valueError := by
  unfold convertCol
  rw [if_neg (by rw [hdt]; decide), hdt]

/-- … and these are the only failures, all of them `ValueError`s -/
theorem convertCol_error_iff (t : Ty) (c : Col) (e : Err) :
    convertCol t c = .error e ↔
      e = .valueError ∧
      ((t = .float ∧ c.dt = .bool) ∨
       (t = .int ∧ c.dt = .float ∧ ∃ q ∈ c.rats, isIntegral q = false) ∨
       (t = .bool ∧ c.dt ≠ .bool ∧ ∃ q ∈ c.rats, q ≠ 0 ∧ q ≠ 1)) := by
  have hE : ∀ (b : Bool) (x : Col),
      ((if b = true then Except.ok x else Except.error Err.valueError) = Except.error e) ↔
        (e = .valueError ∧ b = false) := by
    intro b x; cases b <;> simp [eq_comm]
  unfold convertCol
  cases t <;> cases hc : c.dt <;>
    simp only [Ty.toDT, reduceCtorEq, if_true, if_false, false_and, and_false, or_false, false_or,
      true_and, ne_eq, not_true_eq_false, not_false_eq_true, and_true, hE]
  · simp [eq_comm]
  · simp
  · simp
  · simp

/-! ## conversion of the table -/

/-- **Which columns are converted.** `_convert_data_to_correct_types` succeeds with `out` iff `out`
has the same column names in the same order and, column by column: a column whose name is in
`TYPES_INPUT_VARIABLES` is converted to the type listed there; otherwise a column that overrides a
function with a return annotation is converted to that annotation; every other column is passed
through unchanged. -/
theorem convertData_only_typed (data out : List (String × Col)) (overridden : List Fn) :
    convertData data overridden = .ok out ↔
      List.Forall₂ (fun e e' => e'.1 = e.1 ∧
        match find? typesInputVariables e.1 with
        | some t => convertCol t e.2 = .ok e'.2
        | none =>
          match (findFn? overridden e.1).bind (·.ann) with
          | some t => convertCol t e.2 = .ok e'.2
          | none => e'.2 = e.2) data out := by
  rw [mi_convertData_iff]
  refine iff_of_eq (congrArg (fun r => List.Forall₂ r data out) ?_)
  funext e e'
  unfold mi_ConvEntry mi_convType
  cases find? typesInputVariables e.1 with
  | some t => rfl
  | none => cases (findFn? overridden e.1).bind (·.ann) <;> rfl

/-- corollary: a column that is neither a typed input variable nor overrides an annotated function
is returned as it is -/
theorem convertData_passthrough (data out : List (String × Col)) (overridden : List Fn)
    (h : convertData data overridden = .ok out) (i : Nat) (n : String) (c : Col)
    (hi : data[i]? = some (n, c)) (h1 : find? typesInputVariables n = none)
    (h2 : (findFn? overridden n).bind (·.ann) = none) : out[i]? = some (n, c) := by
  rw [convertData_only_typed] at h
  obtain ⟨e', he', hr⟩ := Dag.forall₂_getElem?_left h hi
  simp only [h1, h2] at hr
  rw [he']
  obtain ⟨n', c'⟩ := e'
  simp only at hr
  rw [hr.1, hr.2]

/-! ## non-vacuity: concrete tables -/
namespace C20SimExamples

def ci (xs : List Int) : Col := { dt := .int, vals := xs.map .i }
def cf (xs : List Rat) : Col := { dt := .float, vals := xs.map .f }
def cb (xs : List Bool) : Col := { dt := .bool, vals := xs.map .b }

/-- a well-formed table: a couple with a child in one household, a single in another -/
def good : List (String × Col) :=
  [("p_id", ci [0, 1, 2, 3]), ("hh_id", ci [7, 7, 7, 8]), ("p_id_ehepartner", ci [1, 0, -1, -1]),
   ("p_id_elternteil_1", ci [-1, -1, 0, -1]), ("miete_m_hh", cf [500, 500, 500, 320]),
   ("bruttolohn_m", cf [2000, 0, 0, 1500])]

example : checkData good = .ok () := by decide +kernel
-- … so the right-hand side of `checkData_ok_iff` is satisfiable
example : (good.map (·.1)).Nodup ∧ find? good "p_id" = some (ci [0, 1, 2, 3]) := by decide +kernel

def setCol (d : List (String × Col)) (n : String) (c : Col) : List (String × Col) :=
  d.map fun e => if e.1 = n then (n, c) else e

-- the hypotheses of the six `checkData_rejects_…` theorems on variants of the table
example : ¬ ((good ++ [("hh_id", ci [0, 0, 0, 0])]).map (·.1)).Nodup := by decide +kernel
example : checkData (good ++ [("hh_id", ci [0, 0, 0, 0])]) = .error .valueError :=
  checkData_rejects_duplicate_columns _ (by decide +kernel)

example : find? (good.drop 1) "p_id" = none := by decide +kernel
example : checkData (good.drop 1) = .error .valueError :=
  checkData_rejects_missing_pid _ (by decide +kernel)

example : checkData (setCol good "p_id" (ci [0, 1, 1, 3])) = .error .valueError :=
  checkData_rejects_duplicate_pid _ (ci [0, 1, 1, 3]) (by decide +kernel) (by decide +kernel)

example : checkData (setCol good "p_id_ehepartner" (ci [1, 0, 9, -1])) = .error .valueError :=
  checkData_rejects_dangling_key _ (ci [0, 1, 2, 3]) (ci [1, 0, 9, -1]) "p_id_ehepartner" 9
    (by decide +kernel) (by decide +kernel) (by decide +kernel) (by decide +kernel) (by decide +kernel)
    (by decide +kernel)

example : checkData (setCol good "p_id_elternteil_1" (ci [-1, -1, 2, -1])) = .error .valueError :=
  checkData_rejects_self_reference _ (ci [0, 1, 2, 3]) (ci [-1, -1, 2, -1]) "p_id_elternteil_1"
    (by decide +kernel) (by decide +kernel) (by decide +kernel) 2 (by decide +kernel) (by decide +kernel)
    (by decide +kernel)

example : checkData (setCol good "miete_m_hh" (cf [500, 400, 500, 320])) = .error .valueError :=
  checkData_rejects_nonconstant_group _ "_hh" (ci [7, 7, 7, 8]) (cf [500, 400, 500, 320]) "miete_m_hh"
    (by decide +kernel) (by decide +kernel) (by decide +kernel) (by decide +kernel) 0 1
    (by decide +kernel) (by decide +kernel) (by decide +kernel) (by decide +kernel) (by decide +kernel)
    (by decide +kernel)

example : constantWithinGroups [7, 7, 7, 8] [500, 500, 500, 320] = true ∧
    constantWithinGroups [7, 7, 7, 8] [500, 400, 500, 320] = false := by decide +kernel

-- conversion: an integral float column becomes int, 0/1 becomes bool, int becomes float
example : convertCol .int (cf [1, 2, 40]) = .ok (ci [1, 2, 40]) := by decide +kernel
example : convertCol .bool (ci [0, 1, 1]) = .ok (cb [false, true, true]) := by decide +kernel
example : convertCol .float (ci [0, 1, -3]) = .ok (cf [0, 1, -3]) := by decide +kernel
example : convertCol .int (cb [true, false]) = .ok (ci [1, 0]) := by decide +kernel
example : (cf [1, 2, 40]).dt = .bool → ∀ r ∈ (cf [1, 2, 40]).vals, VecDtype.dtypeOf r = .bool := by
  decide +kernel
-- the three rejections
example : (cf [1, 5/2]).dt = .float ∧ (5/2 : Rat) ∈ (cf [1, 5/2]).rats ∧ isIntegral (5/2) = false := by
  decide +kernel
example : convertCol .int (cf [1, 5/2]) = .error .valueError := by decide +kernel
example : (ci [0, 2]).dt ≠ .bool ∧ (2 : Rat) ∈ (ci [0, 2]).rats ∧ (2 : Rat) ≠ 0 ∧ (2 : Rat) ≠ 1 := by
  decide +kernel
example : convertCol .bool (ci [0, 2]) = .error .valueError := by decide +kernel
example : convertCol .float (cb [true]) = .error .valueError := by decide +kernel

/-- **The well-typedness hypothesis of `convertCol_lossless` cannot be dropped**: the model's `Col`
does not tie the entries to the dtype tag; for a column tagged `bool` that holds `0.5` the unchecked
cast `bool → int` truncates. (Columns produced by `colOfData` are never of this kind.) -/
theorem convertCol_lossless_needs_wellTyped :
    convertCol .int { dt := .bool, vals := [.f (1/2)] } = .ok { dt := .int, vals := [.i 0] } := by
  decide +kernel

/-- a table in which `alter` (typed input variable, `int`) arrives as float, `x` is unknown and
`y` overrides a function annotated `float` -/
def tbl : List (String × Col) := [("alter", cf [30, 41]), ("x", ci [1, 2]), ("y", ci [3, 4])]
def ov : List Fn := [{ name := "y", args := [], ann := some .float, kind := .timeConv "y" .m .y }]

example : convertData tbl ov = .ok [("alter", ci [30, 41]), ("x", ci [1, 2]), ("y", cf [3, 4])] := by
  decide +kernel
example : tbl[1]? = some ("x", ci [1, 2]) ∧ find? typesInputVariables "x" = none ∧
    (findFn? ov "x").bind (·.ann) = none := by decide +kernel

end C20SimExamples

end GV.Simulate
