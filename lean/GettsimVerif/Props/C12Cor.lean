import GettsimVerif.Props.C12
import GettsimVerif.Lemmas.GroupingsCor
/-
Corollaries of the partition specifications (`Props/C12.lean`) of the group-id constructors of
`_gettsim/groupings.py`, as needed by the properties

* C01 (row-order independence: derived group ids may be numbered differently, but they induce the
  same partition of the persons),
* C02 (separability: a pointer-closed set of persons `A` gets the same partition whether it is
  simulated alone or together with other households `B`; relabelling of ids),
* C12 (units nest; identifiers of different households never collide).

Conventions.  Tables are lists of rows:
* `pairIdRows rows`  = `pairId` (eg_id / ehe_id) on rows `(p_id, partner pointer)`,
* `snIdRows rows`    = `snId` on rows `(p_id, spouse pointer, joint-assessment flag)`,
* `bgIdRows rows`    = `bgId` on rows `(fg_id, alter, eigenbedarf_gedeckt)`,
* `wthhIdRows rows`  = `wthhId` on rows `(hh_id, flag1, flag2)`,
* `fgId true ps`     = the (repaired) fg_id on a list of `Person`s.
These wrappers only split the rows into the columns expected by the models in `Core/Groupings.lean`.
"Same partition" is always expressed as in `fg_repaired_order_independent`: for rows `i, j` of table 1
corresponding to rows `i', j'` of table 2, `res[i] = res[j] ↔ res'[i'] = res'[j']`.

Validity: `ValidRows rows` (unique non-negative p_ids, no self pointers, every non-negative pointer
is answered by a row pointing back) is equivalent to `ValidPairs` of `Props/C12.lean`
(`validRows_iff_validPairs`); `ValidRows3` is the same for rows with a flag; `SnAgree` = spouses carry
the same joint-assessment flag; `ValidPersons`, `ValidDependents` as in `fg_spec`; `BgSmall` = every
family unit has fewer than 100 self-sufficient children under 25.
-/
namespace GV.Groupings

/-- The membership form of validity used here is equivalent to `ValidPairs` of `Props/C12.lean`. -/
theorem validRows_iff_validPairs {rows : List (Int × Int)} :
    ValidRows rows ↔ ValidPairs (rows.map (·.1)) (rows.map (·.2)) := validRows_iff

/-- The `BgSmall` hypothesis implies the hypothesis `bgRank … < 100` used in `bg_nests_in_fg`. -/
theorem bgSmall_rank_lt {rows : List (Int × Int × Bool)} (hs : BgSmall rows) {i : Nat}
    (hi : i < rows.length) :
    bgRank (rows.map (·.1)) (rows.map (·.2.1)) (rows.map (·.2.2)) i < 100 := by
  unfold bgRank
  rw [zip3_map]
  simp only [List.getElem?_map, List.getElem?_eq_getElem hi, Option.map_some, Option.getD_some]
  exact Nat.lt_of_le_of_lt (bgRankRows_le rows rows[i].1 i) (hs _ (List.getElem_mem hi))

/-! ## 1. Row-order independence (C01) -/

/-- eg_id / ehe_id: for any permutation of a valid table the ids may differ, but two persons share an
id in one row order iff they do in the other. -/
theorem pairId_order_independent {rows rows' : List (Int × Int)} (hp : rows.Perm rows')
    (hv : ValidRows rows) {i j i' j' : Nat} (hi : i < rows.length) (hj : j < rows.length)
    (hi' : i' < rows'.length) (hj' : j' < rows'.length)
    (ei : rows[i] = rows'[i']) (ej : rows[j] = rows'[j']) :
    ((pairIdRows rows)[i]'(by rw [pairIdRows_length]; exact hi) =
        (pairIdRows rows)[j]'(by rw [pairIdRows_length]; exact hj) ↔
      (pairIdRows rows')[i']'(by rw [pairIdRows_length]; exact hi') =
        (pairIdRows rows')[j']'(by rw [pairIdRows_length]; exact hj')) := by
  rw [pairIdRows_spec hv hi hj, pairIdRows_spec (hv.perm hp) hi' hj', ei, ej]

/-- non-vacuity: couple 70/3 and two singles, sparse unsorted ids; the two row orders number the
groups differently -/
example : pairEx.Perm pairEx' ∧ ValidRows pairEx :=
  ⟨by decide, ⟨by decide, by decide, by decide, by decide⟩⟩

example : pairIdRows pairEx = [0, 1, 0, 2] ∧ pairIdRows pairEx' = [0, 1, 2, 1] := by decide

/-- sn_id: if spouses agree on the flag, `snId` succeeds for every row order and the induced
partition of the persons is the same. -/
theorem snId_order_independent {rows rows' : List (Int × Int × Bool)} (hp : rows.Perm rows')
    (hv : ValidRows3 rows) (hag : SnAgree rows) :
    ∃ res res', snIdRows rows = .ok res ∧ snIdRows rows' = .ok res' ∧
      ∃ (hl : res.length = rows.length) (hl' : res'.length = rows'.length),
      ∀ i (hi : i < rows.length) j (hj : j < rows.length) i' (hi' : i' < rows'.length)
        j' (hj' : j' < rows'.length), rows[i] = rows'[i'] → rows[j] = rows'[j'] →
        (res[i] = res[j] ↔ res'[i'] = res'[j']) := by
  obtain ⟨res, hres, hl, h⟩ := snIdRows_spec hv hag
  obtain ⟨res', hres', hl', h'⟩ := snIdRows_spec (hv.perm hp) ((SnAgree.perm_iff hp).mp hag)
  refine ⟨res, res', hres, hres', hl, hl', ?_⟩
  intro i hi j hj i' hi' j' hj' e1 e2
  rw [h i hi j hj, h' i' hi' j' hj', e1, e2]

/-- non-vacuity: a jointly and a separately assessed couple and a single -/
example : snEx.Perm snEx' ∧ ValidRows3 snEx ∧ SnAgree snEx :=
  ⟨by decide, ⟨by decide, by decide, by decide, by decide⟩, by decide⟩

example : snIdRows snEx = .ok [0, 1, 0, 2, 3] ∧ snIdRows snEx' = .ok [0, 1, 2, 3, 2] := by decide


/-- sn_id raises its ValueError for one row order iff it raises it for every other row order; and
under validity it never raises anything else. -/
theorem snId_error_order_independent {rows rows' : List (Int × Int × Bool)}
    (hp : rows.Perm rows') (hv : ValidRows3 rows) :
    (snIdRows rows = .error .valueError ↔ snIdRows rows' = .error .valueError) ∧
      ((∃ res, snIdRows rows = .ok res) ∨ snIdRows rows = .error .valueError) := by
  refine ⟨?_, snIdRows_ok_or_valueError hv⟩
  rw [snIdRows_error_iff hv, snIdRows_error_iff (hv.perm hp), SnAgree.perm_iff hp]

/-- non-vacuity: spouses 70/3 disagree — the error is raised in both row orders -/
example : snExBad.Perm snExBad.reverse ∧ ValidRows3 snExBad ∧
    snIdRows snExBad = .error .valueError ∧ snIdRows snExBad.reverse = .error .valueError :=
  ⟨by decide, ⟨by decide, by decide, by decide, by decide⟩, by decide, by decide⟩

/-- bg_id depends only on the PARTITION induced by the fg_id column (and on alter / eigenbedarf):
if two tables have fewer than 100 self-sufficient children per family unit and rows `i, j` of the
first correspond to rows `i', j'` of the second (same alter and flag, `i = j ↔ i' = j'`, and the fg
ids agree as a partition), then the bg ids agree as a partition. -/
theorem bgId_partition_congr {rows rows' : List (Int × Int × Bool)} (hs : BgSmall rows)
    (hs' : BgSmall rows') {i j i' j' : Nat} (hi : i < rows.length) (hj : j < rows.length)
    (hi' : i' < rows'.length) (hj' : j' < rows'.length) (hij : i = j ↔ i' = j')
    (hfg : rows[i].1 = rows[j].1 ↔ rows'[i'].1 = rows'[j'].1)
    (ei : rows[i].2 = rows'[i'].2) (ej : rows[j].2 = rows'[j'].2) :
    ((bgIdRows rows)[i]'(by rw [bgIdRows_length]; exact hi) =
        (bgIdRows rows)[j]'(by rw [bgIdRows_length]; exact hj) ↔
      (bgIdRows rows')[i']'(by rw [bgIdRows_length]; exact hi') =
        (bgIdRows rows')[j']'(by rw [bgIdRows_length]; exact hj')) := by
  rw [bgIdRows_spec hs hi hj, bgIdRows_spec hs' hi' hj', hij, hfg]
  have qi : bgQual rows[i] = bgQual rows'[i'] := by unfold bgQual; rw [ei]
  have qj : bgQual rows[j] = bgQual rows'[j'] := by unfold bgQual; rw [ej]
  rw [qi, qj]

/-- non-vacuity: rows 0 and 2 (the self-sufficient children 41 and 12) of `bgExT` against rows 4
and 1 of the permuted and renumbered table `bgExT'` -/
example : BgSmall (bgExT.map (·.2)) ∧ BgSmall (bgExT'.map (·.2)) ∧
    ((0 : Nat) = 2 ↔ (4 : Nat) = 1) ∧
    (((bgExT.map (·.2))[0]?.map (·.1)) = ((bgExT.map (·.2))[2]?.map (·.1)) ↔
      ((bgExT'.map (·.2))[4]?.map (·.1)) = ((bgExT'.map (·.2))[1]?.map (·.1))) ∧
    ((bgExT.map (·.2))[0]?.map (·.2)) = ((bgExT'.map (·.2))[4]?.map (·.2)) ∧
    ((bgExT.map (·.2))[2]?.map (·.2)) = ((bgExT'.map (·.2))[1]?.map (·.2)) := by decide

/-- bg_id, row-order independence up to renumbering of the family units: let `t` be a table of rows
`(p_id, fg_id, alter, eigenbedarf_gedeckt)` with unique p_ids and fewer than 100 self-sufficient
children per family unit, and let `t'` be any permutation of `t` in which the fg ids were renumbered
by a map `ρ` that is injective on the occurring fg ids (`ρ = id`: pure row permutation).  Then two
persons share a bg id in `t` iff they do in `t'`. -/
theorem bgId_order_independent {ρ : Int → Int} {t t' : List (Int × Int × Int × Bool)}
    (hn : (t.map (·.1)).Nodup)
    (hinj : ∀ x ∈ t, ∀ y ∈ t, ρ x.2.1 = ρ y.2.1 → x.2.1 = y.2.1)
    (hp : (t.map fun r => (r.1, bgRelabel ρ r.2)).Perm t') (hs : BgSmall (t.map (·.2)))
    {i j i' j' : Nat} (hi : i < t.length) (hj : j < t.length) (hi' : i' < t'.length)
    (hj' : j' < t'.length) (ei : t[i].1 = t'[i'].1) (ej : t[j].1 = t'[j'].1) :
    ((bgIdRows (t.map (·.2)))[i]'(by rw [bgIdRows_length, List.length_map]; exact hi) =
        (bgIdRows (t.map (·.2)))[j]'(by rw [bgIdRows_length, List.length_map]; exact hj) ↔
      (bgIdRows (t'.map (·.2)))[i']'(by rw [bgIdRows_length, List.length_map]; exact hi') =
        (bgIdRows (t'.map (·.2)))[j']'(by rw [bgIdRows_length, List.length_map]; exact hj')) := by
  have ri := perm_row_of_key (key := (·.1)) (f := fun r => (r.1, bgRelabel ρ r.2)) hn
    (fun _ => rfl) hp hi hi' ei
  have rj := perm_row_of_key (key := (·.1)) (f := fun r => (r.1, bgRelabel ρ r.2)) hn
    (fun _ => rfl) hp hj hj' ej
  have hn' : (t'.map (·.1)).Nodup := by
    have h1 := (hp.map (·.1)).nodup_iff
    rw [List.map_map] at h1
    exact h1.mp hn
  have hs' : BgSmall (t'.map (·.2)) := by
    have h1 := hp.map (·.2)
    rw [List.map_map] at h1
    have h2 : (t.map ((·.2) ∘ fun r => (r.1, bgRelabel ρ r.2))) =
        (t.map (·.2)).map (bgRelabel ρ) := by rw [List.map_map]; rfl
    rw [h2] at h1
    refine BgSmall.perm h1 (BgSmall.relabel ?_ hs)
    intro x hx y hy e
    obtain ⟨a, ha, rfl⟩ := List.mem_map.mp hx
    obtain ⟨b, hb, rfl⟩ := List.mem_map.mp hy
    exact hinj a ha b hb e
  refine bgId_partition_congr hs hs' (by simpa using hi) (by simpa using hj)
    (by simpa using hi') (by simpa using hj') ?_ ?_ ?_ ?_
  · rw [← nodup_getElem_inj hn hi hj, ← nodup_getElem_inj hn' hi' hj', ei, ej]
  · simp only [List.getElem_map, ri, rj, bgRelabel]
    exact ⟨fun e => by rw [e],
      hinj _ (List.getElem_mem hi) _ (List.getElem_mem hj)⟩
  · simp only [List.getElem_map, ri, bgRelabel]
  · simp only [List.getElem_map, rj, bgRelabel]

/-- bg_id, pure row-order independence (`ρ = id` in `bgId_order_independent`): for a permutation
`t'` of the table `t` of rows `(p_id, fg_id, alter, eigenbedarf_gedeckt)` two persons share a bg id
in `t` iff they do in `t'`. -/
theorem bgId_order_independent_perm {t t' : List (Int × Int × Int × Bool)}
    (hn : (t.map (·.1)).Nodup) (hp : t.Perm t') (hs : BgSmall (t.map (·.2)))
    {i j i' j' : Nat} (hi : i < t.length) (hj : j < t.length) (hi' : i' < t'.length)
    (hj' : j' < t'.length) (ei : t[i].1 = t'[i'].1) (ej : t[j].1 = t'[j'].1) :
    ((bgIdRows (t.map (·.2)))[i]'(by rw [bgIdRows_length, List.length_map]; exact hi) =
        (bgIdRows (t.map (·.2)))[j]'(by rw [bgIdRows_length, List.length_map]; exact hj) ↔
      (bgIdRows (t'.map (·.2)))[i']'(by rw [bgIdRows_length, List.length_map]; exact hi') =
        (bgIdRows (t'.map (·.2)))[j']'(by rw [bgIdRows_length, List.length_map]; exact hj')) := by
  have hid : (t.map fun r => (r.1, bgRelabel id r.2)) = t := by
    simp [bgRelabel]
  exact bgId_order_independent (ρ := id) hn (fun _ _ _ _ e => e) (by rw [hid]; exact hp) hs
    hi hj hi' hj' ei ej

/-- non-vacuity -/
example : ((bgExT.map (·.1)).Nodup) ∧ bgExT.Perm bgExT.reverse ∧ BgSmall (bgExT.map (·.2)) ∧
    bgIdRows (bgExT.reverse.map (·.2)) = [300, 200, 100, 101, 100, 102] := by decide

/-- non-vacuity: the patchwork family with two self-sufficient children and the second household;
`bgExT'` is `bgExT` permuted with the fg ids renumbered by `f ↦ 50 - f` -/
example : ((bgExT.map (·.1)).Nodup) ∧
    (∀ x ∈ bgExT, ∀ y ∈ bgExT, (fun f => 50 - f) x.2.1 = (fun f => 50 - f) y.2.1 → x.2.1 = y.2.1) ∧
    (bgExT.map fun r => (r.1, bgRelabel (fun f => 50 - f) r.2)).Perm bgExT' ∧
    BgSmall (bgExT.map (·.2)) := by decide

example : bgIdRows (bgExT.map (·.2)) = [101, 100, 102, 100, 200, 300] ∧
    bgIdRows (bgExT'.map (·.2)) = [4700, 4901, 4800, 4900, 4902, 4900] := by decide

/-- The `BgSmall` hypothesis is needed in `bgId_partition_congr`, `bgId_order_independent` and
`bgId_relabel`: with 100 self-sufficient children in family unit 0 the 100th child collides with the
adult of family unit 1 (`bg_collision_at_100`); after renumbering family unit 1 to 5 it does not. -/
theorem bgId_relabel_needs_small :
    let rows : List (Int × Int × Bool) := List.replicate 100 (0, 10, true) ++ [(1, 40, false)]
    let ρ : Int → Int := fun f => if f = 1 then 5 else f
    (bgIdRows rows)[99]? = (bgIdRows rows)[100]? ∧
      (bgIdRows (rows.map (bgRelabel ρ)))[99]? ≠ (bgIdRows (rows.map (bgRelabel ρ)))[100]? := by
  decide +kernel

/-- bg_id on top of fg_id, end to end: compute fg_id from a valid person table and bg_id from that fg
column, the ages and an `eigenbedarf_gedeckt` flag attached to the persons (`e`).  For any
permutation of the table the fg ids may be numbered differently, yet — if every family unit has
fewer than 100 self-sufficient children in ONE of the row orders — two persons share a bg id in one
row order iff they do in the other. -/
theorem bg_of_fg_order_independent {ps ps' : List Person} (hp : ps.Perm ps')
    (hv : ValidPersons ps) (h7 : ValidDependents ps) (e : Person → Bool) :
    ∃ fg fg', fgId true ps = .ok fg ∧ fgId true ps' = .ok fg' ∧
      (BgSmall (fg.zip ((ps.map (·.alter)).zip (ps.map e))) →
        ∃ (hl : (bgId fg (ps.map (·.alter)) (ps.map e)).length = ps.length)
          (hl' : (bgId fg' (ps'.map (·.alter)) (ps'.map e)).length = ps'.length),
        ∀ i (hi : i < ps.length) j (hj : j < ps.length) i' (hi' : i' < ps'.length)
          j' (hj' : j' < ps'.length), ps[i] = ps'[i'] → ps[j] = ps'[j'] →
          ((bgId fg (ps.map (·.alter)) (ps.map e))[i] = (bgId fg (ps.map (·.alter)) (ps.map e))[j] ↔
            (bgId fg' (ps'.map (·.alter)) (ps'.map e))[i'] =
              (bgId fg' (ps'.map (·.alter)) (ps'.map e))[j'])) := by
  obtain ⟨F, hF, spec⟩ := fg_spec_fun hv h7
  obtain ⟨F', hF', spec'⟩ := fg_spec_fun (hv.perm hp) (h7.perm hp)
  have hm : ∀ r, r ∈ ps ↔ r ∈ ps' := fun r => hp.mem_iff
  have hFF : ∀ r ∈ ps, ∀ x ∈ ps, (F r = F x ↔ F' r = F' x) := by
    intro r hr x hx
    rw [spec r hr x hx, spec' r ((hm r).mp hr) x ((hm x).mp hx)]
    exact fgSame_congr hm r x
  refine ⟨ps.map F, ps'.map F', hF, hF', fun hs => ?_⟩
  have hb : ∀ (l : List Person) (G : Person → Int),
      bgId (l.map G) (l.map (·.alter)) (l.map e) = bgIdRows (l.map fun r => (G r, r.alter, e r)) := by
    intro l G
    simp only [bgIdRows, List.map_map]
    rfl
  rw [zip3_of_map] at hs
  have hs' := bgSmall_transfer hp F F' hFF (fun r => (r.alter, e r)) hs
  simp only [hb]
  refine ⟨by rw [bgIdRows_length]; simp, by rw [bgIdRows_length]; simp, ?_⟩
  intro i hi j hj i' hi' j' hj' ei ej
  have hij : i = j ↔ i' = j' := by
    rw [← nodup_getElem_inj hv.nodup hi hj, ← nodup_getElem_inj (hv.perm hp).nodup hi' hj', ei, ej]
  refine bgId_partition_congr hs hs' (by simpa using hi) (by simpa using hj) (by simpa using hi')
    (by simpa using hj') hij ?_ ?_ ?_
  · simp only [List.getElem_map, ← ei, ← ej]
    exact hFF _ (List.getElem_mem hi) _ (List.getElem_mem hj)
  · simp only [List.getElem_map, ← ei]
  · simp only [List.getElem_map, ← ej]

/-- non-vacuity on `fgExample` with the flag "is one of the persons 41, 12, 9" -/
example :
    let e : Person → Bool := fun r => r.pid = 41 || r.pid = 12 || r.pid = 9
    fgExample.Perm fgExample.reverse ∧ ValidPersons fgExample ∧ ValidDependents fgExample ∧
    BgSmall ([1, 1, 1, 1, 2, 3].zip ((fgExample.map (·.alter)).zip (fgExample.map e))) ∧
    bgId [1, 1, 1, 1, 2, 3] (fgExample.map (·.alter)) (fgExample.map e)
      = [101, 100, 102, 100, 200, 300] ∧
    fgId true fgExample.reverse = .ok [0, 1, 2, 2, 2, 2] ∧
    bgId [0, 1, 2, 2, 2, 2] (fgExample.reverse.map (·.alter)) (fgExample.reverse.map e)
      = [0, 100, 200, 201, 200, 202] :=
  ⟨by decide, ⟨by decide, by decide, by decide, by decide⟩, ⟨by decide, by decide⟩, by decide,
    by decide, by decide, by decide⟩

/-- wthh_id is computed row by row: a permutation of the rows permutes the ids, and a row gets the
same id wherever it stands. -/
theorem wthhId_perm {rows rows' : List (Int × Bool × Bool)} (hp : rows.Perm rows') :
    (wthhIdRows rows).Perm (wthhIdRows rows') ∧
      ∀ i (hi : i < rows.length) i' (hi' : i' < rows'.length), rows[i] = rows'[i'] →
        (wthhIdRows rows)[i]'(by rw [wthhIdRows_length]; exact hi) =
          (wthhIdRows rows')[i']'(by rw [wthhIdRows_length]; exact hi') := by
  constructor
  · rw [wthhIdRows_eq_map, wthhIdRows_eq_map]; exact hp.map _
  · intro i hi i' hi' e
    rw [wthhIdRows_getElem hi, wthhIdRows_getElem hi', e]

example : wthhEx.Perm wthhEx.reverse ∧ wthhIdRows wthhEx = [701, 700, 301, -200] ∧
    wthhIdRows wthhEx.reverse = [-200, 301, 700, 701] := by decide

/-! ## 2. Separability (C02): `A` simulated together with `B` versus `A` alone -/

/-- eg_id / ehe_id: if `A ++ B` is valid and no pointer of an `A`-row leads to a `B`-row, the
partition of the `A`-persons computed from `A ++ B` equals the one computed from `A` alone.  (That
no `B`-row points into `A` and that `B` has no p_id of `A` follows from validity of `A ++ B`.) -/
theorem pairId_union {A B : List (Int × Int)} (hv : ValidRows (A ++ B)) (hc : PairClosed A B)
    {i j : Nat} (hi : i < A.length) (hj : j < A.length) :
    ((pairIdRows (A ++ B))[i]'(by rw [pairIdRows_length]; simp; omega) =
        (pairIdRows (A ++ B))[j]'(by rw [pairIdRows_length]; simp; omega) ↔
      (pairIdRows A)[i]'(by rw [pairIdRows_length]; exact hi) =
        (pairIdRows A)[j]'(by rw [pairIdRows_length]; exact hj)) := by
  rw [pairIdRows_spec hv (by simp; omega) (by simp; omega),
    pairIdRows_spec (hv.of_append_left hc) hi hj, List.getElem_append_left hi,
    List.getElem_append_left hj]

/-- The hypothesis `PairClosed` follows from the literal closure condition "every pointer of an
`A`-row is negative or the p_id of an `A`-row". -/
theorem pairClosed_of_closed {A B : List (Int × Int)} (hv : ValidRows (A ++ B))
    (hc : ∀ a ∈ A, a.2 < 0 ∨ a.2 ∈ A.map (·.1)) : PairClosed A B := pairClosed_of_ptr hv hc

/-- General form of `pairId_union` (any row order): if `T` is a permutation of `A ++ B`, the
partition induced on the `A`-persons by `pairId` applied to `T` equals the one from `A` alone. -/
theorem pairId_union_perm {T A B : List (Int × Int)} (hp : T.Perm (A ++ B))
    (hv : ValidRows (A ++ B)) (hc : PairClosed A B) {k l i j : Nat} (hk : k < T.length)
    (hl : l < T.length) (hi : i < A.length) (hj : j < A.length) (ek : T[k] = A[i])
    (el : T[l] = A[j]) :
    ((pairIdRows T)[k]'(by rw [pairIdRows_length]; exact hk) =
        (pairIdRows T)[l]'(by rw [pairIdRows_length]; exact hl) ↔
      (pairIdRows A)[i]'(by rw [pairIdRows_length]; exact hi) =
        (pairIdRows A)[j]'(by rw [pairIdRows_length]; exact hj)) := by
  rw [pairIdRows_spec (hv.perm hp.symm) hk hl, pairIdRows_spec (hv.of_append_left hc) hi hj,
    ek, el]

/-- non-vacuity: `pairEx` (couple + two singles) and another household with a couple -/
example : ValidRows (pairEx ++ pairExB) ∧ PairClosed pairEx pairExB ∧
    (∀ a ∈ pairEx, a.2 < 0 ∨ a.2 ∈ pairEx.map (·.1)) ∧
    (pairExB.reverse ++ pairEx').Perm (pairEx ++ pairExB) :=
  ⟨⟨by decide, by decide, by decide, by decide⟩, by decide, by decide, by decide⟩

example : pairIdRows (pairEx ++ pairExB) = [0, 1, 0, 2, 3, 3] ∧ pairIdRows pairEx = [0, 1, 0, 2] ∧
    pairIdRows (pairExB.reverse ++ pairEx') = [0, 0, 1, 2, 3, 2] := by decide

/-- sn_id: same statement; if `snId` succeeds on `A ++ B` (spouses agree) it succeeds on `A`. -/
theorem snId_union {A B : List (Int × Int × Bool)} (hv : ValidRows3 (A ++ B))
    (hc : SnClosed A B) (hag : SnAgree (A ++ B)) :
    ∃ res resA, snIdRows (A ++ B) = .ok res ∧ snIdRows A = .ok resA ∧
      ∃ (hl : res.length = (A ++ B).length) (hlA : resA.length = A.length),
      ∀ i (hi : i < A.length) j (hj : j < A.length),
        (res[i]'(by rw [hl]; simp; omega) = res[j]'(by rw [hl]; simp; omega) ↔
          resA[i] = resA[j]) := by
  obtain ⟨res, hres, hl, h⟩ := snIdRows_spec hv hag
  obtain ⟨resA, hresA, hlA, hA⟩ := snIdRows_spec (hv.of_append_left hc) hag.of_append_left
  refine ⟨res, resA, hres, hresA, hl, hlA, ?_⟩
  intro i hi j hj
  rw [h i (by simp; omega) j (by simp; omega), hA i hi j hj, List.getElem_append_left hi,
    List.getElem_append_left hj]

/-- The hypothesis `SnClosed` follows from the literal closure condition. -/
theorem snClosed_of_closed {A B : List (Int × Int × Bool)} (hv : ValidRows3 (A ++ B))
    (hc : ∀ a ∈ A, a.2.1 < 0 ∨ a.2.1 ∈ A.map (·.1)) : SnClosed A B := snClosed_of_ptr hv hc

/-- General form of `snId_union` (any row order of the big table). -/
theorem snId_union_perm {T A B : List (Int × Int × Bool)} (hp : T.Perm (A ++ B))
    (hv : ValidRows3 (A ++ B)) (hc : SnClosed A B) (hag : SnAgree (A ++ B)) :
    ∃ res resA, snIdRows T = .ok res ∧ snIdRows A = .ok resA ∧
      ∃ (hl : res.length = T.length) (hlA : resA.length = A.length),
      ∀ k (hk : k < T.length) l (hl' : l < T.length) i (hi : i < A.length) j (hj : j < A.length),
        T[k] = A[i] → T[l] = A[j] → (res[k] = res[l] ↔ resA[i] = resA[j]) := by
  obtain ⟨res, hres, hl, h⟩ :=
    snIdRows_spec (hv.perm hp.symm) ((SnAgree.perm_iff hp.symm).mp hag)
  obtain ⟨resA, hresA, hlA, hA⟩ := snIdRows_spec (hv.of_append_left hc) hag.of_append_left
  refine ⟨res, resA, hres, hresA, hl, hlA, ?_⟩
  intro k hk l hl' i hi j hj ek el
  rw [h k hk l hl', hA i hi j hj, ek, el]

/-- non-vacuity -/
example : ValidRows3 (snEx ++ snExB) ∧ SnClosed snEx snExB ∧ SnAgree (snEx ++ snExB) ∧
    (∀ a ∈ snEx, a.2.1 < 0 ∨ a.2.1 ∈ snEx.map (·.1)) ∧
    (snExB ++ snEx').Perm (snEx ++ snExB) :=
  ⟨⟨by decide, by decide, by decide, by decide⟩, by decide, by decide, by decide, by decide⟩

example : snIdRows (snEx ++ snExB) = .ok [0, 1, 0, 2, 3, 4, 4] ∧
    snIdRows snEx = .ok [0, 1, 0, 2, 3] := by decide


/-- sn_id: a ValueError of the closed part `A` alone also occurs for `A ++ B`. -/
theorem snId_union_error {A B : List (Int × Int × Bool)} (hv : ValidRows3 (A ++ B))
    (hc : SnClosed A B) (h : snIdRows A = .error .valueError) :
    snIdRows (A ++ B) = .error .valueError := by
  rw [snIdRows_error_iff hv]
  rw [snIdRows_error_iff (hv.of_append_left hc)] at h
  exact fun hag => h hag.of_append_left

/-- non-vacuity -/
example : ValidRows3 (snExBad ++ snExB) ∧ SnClosed snExBad snExB ∧
    snIdRows snExBad = .error .valueError :=
  ⟨⟨by decide, by decide, by decide, by decide⟩, by decide, by decide⟩

/-- fg_id: if `A ++ B` is valid and no partner or parent pointer crosses between `A` and `B`
(`FgSeparated`), the partition of the `A`-persons computed from `A ++ B` equals the one computed
from `A` alone. -/
theorem fg_union {A B : List Person} (hs : FgSeparated A B) (hv : ValidPersons (A ++ B))
    (h7 : ValidDependents (A ++ B)) :
    ∃ res resA, fgId true (A ++ B) = .ok res ∧ fgId true A = .ok resA ∧
      ∃ (hl : res.length = (A ++ B).length) (hlA : resA.length = A.length),
      ∀ i (hi : i < A.length) j (hj : j < A.length),
        (res[i]'(by rw [hl]; simp; omega) = res[j]'(by rw [hl]; simp; omega) ↔
          resA[i] = resA[j]) := by
  obtain ⟨res, hres, hl, h⟩ := fg_spec hv h7
  obtain ⟨resA, hresA, hlA, hA⟩ := fg_spec (hv.of_append_left hs) (h7.of_append_left hs)
  refine ⟨res, resA, hres, hresA, hl, hlA, ?_⟩
  intro i hi j hj
  rw [h i (by simp; omega) j (by simp; omega), hA i hi j hj, List.getElem_append_left hi,
    List.getElem_append_left hj]
  exact fgSame_append_left hs (List.getElem_mem hi) (List.getElem_mem hj)

/-- General form of `fg_union` (any row order of the big table): if `T` is a permutation of
`A ++ B`, the partition induced on the `A`-persons by `fgId` applied to `T` equals the one from `A`
alone. -/
theorem fg_union_perm {T A B : List Person} (hp : T.Perm (A ++ B)) (hs : FgSeparated A B)
    (hv : ValidPersons (A ++ B)) (h7 : ValidDependents (A ++ B)) :
    ∃ res resA, fgId true T = .ok res ∧ fgId true A = .ok resA ∧
      ∃ (hl : res.length = T.length) (hlA : resA.length = A.length),
      ∀ k (hk : k < T.length) l (hl' : l < T.length) i (hi : i < A.length) j (hj : j < A.length),
        T[k] = A[i] → T[l] = A[j] → (res[k] = res[l] ↔ resA[i] = resA[j]) := by
  obtain ⟨res, hres, hl, h⟩ := fg_spec (hv.perm hp.symm) (h7.perm hp.symm)
  obtain ⟨resA, hresA, hlA, hA⟩ := fg_spec (hv.of_append_left hs) (h7.of_append_left hs)
  refine ⟨res, resA, hres, hresA, hl, hlA, ?_⟩
  intro k hk l hl' i hi j hj ek el
  rw [h k hk l hl', hA i hi j hj, ek, el, fgSame_congr (fun r => hp.mem_iff)]
  exact fgSame_append_left hs (List.getElem_mem hi) (List.getElem_mem hj)

/-- non-vacuity: `fgExample` = patchwork family in household 1 (`fgExA`) ++ single with adult child
in household 2 (`fgExB`) -/
example : FgSeparated fgExA fgExB ∧ FgClosed fgExA fgExB ∧ ValidPersons (fgExA ++ fgExB) ∧
    ValidDependents (fgExA ++ fgExB) ∧ fgExample.reverse.Perm (fgExA ++ fgExB) :=
  ⟨⟨by decide, by decide, by decide⟩, ⟨by decide, by decide, by decide, by decide⟩,
    ⟨by decide, by decide, by decide, by decide⟩, ⟨by decide, by decide⟩, by decide⟩

example : fgId true (fgExA ++ fgExB) = .ok [1, 1, 1, 1, 2, 3] ∧
    fgId true fgExA = .ok [1, 1, 1, 1] := by decide

/-- Separation is needed in `fg_union`: G (50) and her co-resident child P (20) form one family unit
when simulated alone; together with P's baby (a `B`-row whose parent pointer leads into `A`) P is no
longer a dependent child and leaves G's family unit.  The big table is valid. -/
theorem fg_union_needs_separation :
    ValidPersons (fgSepA ++ fgSepB) ∧ ValidDependents (fgSepA ++ fgSepB) ∧
      fgId true (fgSepA ++ fgSepB) = .ok [0, 1, 1] ∧ fgId true fgSepA = .ok [0, 0] :=
  ⟨⟨by decide, by decide, by decide, by decide⟩, ⟨by decide, by decide⟩, by decide, by decide⟩

/-- The separation hypothesis of `fg_union` follows from the literal closure condition: every
partner / parent pointer of an `A`-row is negative or the p_id of an `A`-row and no `B`-row has a
parent pointer into `A` (p_ids of `A ++ B` unique and non-negative). -/
theorem fgSeparated_of_closed {A B : List Person} (hc : FgClosed A B)
    (hv : ValidPersons (A ++ B)) : FgSeparated A B :=
  hc.separated hv.nodup hv.nonneg

/-- bg_id: the ids of the `A`-rows in `A ++ B` are literally those of `A` alone (the scan has not
seen `B` yet); in `B ++ A` they are those of `A` alone provided no fg id of `B` occurs in `A`. -/
theorem bgId_union (A B : List (Int × Int × Bool)) {i : Nat} (hi : i < A.length) :
    (bgIdRows (A ++ B))[i]'(by rw [bgIdRows_length]; simp; omega) =
        (bgIdRows A)[i]'(by rw [bgIdRows_length]; exact hi) ∧
      ((∀ a ∈ A, ∀ b ∈ B, b.1 ≠ a.1) →
        (bgIdRows (B ++ A))[B.length + i]'(by rw [bgIdRows_length]; simp; omega) =
          (bgIdRows A)[i]'(by rw [bgIdRows_length]; exact hi)) :=
  ⟨bgIdRows_append_left A B hi, fun hd => bgIdRows_append_right A B hd hi⟩

/-- non-vacuity of the disjointness hypothesis -/
example : ∀ a ∈ (bgExT.take 4).map (·.2), ∀ b ∈ (bgExT.drop 4).map (·.2), b.1 ≠ a.1 := by decide

/-- The disjointness hypothesis of `bgId_union` is needed: a self-sufficient child of `B` scanned
before a self-sufficient child of `A` with the same fg id changes the latter's bg id. -/
theorem bgId_union_needs_disjoint :
    (bgIdRows ([(4, 10, true)] ++ [(4, 12, true)]))[1]? = some 402 ∧
      (bgIdRows [(4, 12, true)])[0]? = some 401 := by decide

/-- wthh_id: the ids of the `A`-rows do not depend on `B` at all. -/
theorem wthhId_union (A B : List (Int × Bool × Bool)) {i : Nat} (hi : i < A.length) :
    (wthhIdRows (A ++ B))[i]'(by rw [wthhIdRows_length]; simp; omega) =
        (wthhIdRows A)[i]'(by rw [wthhIdRows_length]; exact hi) ∧
      (wthhIdRows (B ++ A))[B.length + i]'(by rw [wthhIdRows_length]; simp; omega) =
        (wthhIdRows A)[i]'(by rw [wthhIdRows_length]; exact hi) := by
  constructor
  · rw [wthhIdRows_getElem (by simp; omega), wthhIdRows_getElem hi, List.getElem_append_left hi]
  · rw [wthhIdRows_getElem (by simp; omega), wthhIdRows_getElem hi,
      List.getElem_append_right (by omega)]
    simp only [Nat.add_sub_cancel_left]

/-! ## 3. Relabelling (C02) -/

/-- eg_id / ehe_id: relabelling p_ids and pointers by a map that keeps negative pointers negative and
maps the occurring non-negative ids injectively to non-negative ids (`RelabelOn`) does not change the
induced partition. -/
theorem pairId_relabel {ρ : Int → Int} {rows : List (Int × Int)} (hv : ValidRows rows)
    (hρ : RelabelOn ρ (pairIds rows)) {i j : Nat} (hi : i < rows.length) (hj : j < rows.length) :
    ((pairIdRows (rows.map (pairRelabel ρ)))[i]'(by rw [pairIdRows_length]; simpa using hi) =
        (pairIdRows (rows.map (pairRelabel ρ)))[j]'(by rw [pairIdRows_length]; simpa using hj) ↔
      (pairIdRows rows)[i]'(by rw [pairIdRows_length]; exact hi) =
        (pairIdRows rows)[j]'(by rw [pairIdRows_length]; exact hj)) := by
  rw [pairIdRows_spec (hv.relabel hρ) (by simpa using hi) (by simpa using hj),
    pairIdRows_spec hv hi hj]
  simp only [List.getElem_map]
  exact pairSame_relabel hv hρ (List.getElem_mem hi) (List.getElem_mem hj)

/-- non-vacuity: `rhoEx x = 37 x mod 101` on non-negative ids (injective on the occurring ids only),
negative pointers fixed -/
example : ValidRows pairEx ∧ RelabelOn rhoEx (pairIds pairEx) :=
  ⟨⟨by decide, by decide, by decide, by decide⟩, ⟨by decide, by decide, by decide⟩⟩

example : pairEx.map (pairRelabel rhoEx) = [(65, 10), (40, -1), (10, 65), (2, -1)] ∧
    pairIdRows (pairEx.map (pairRelabel rhoEx)) = [0, 1, 0, 2] := by decide

/-- sn_id: relabelling does not change whether the ValueError is raised, and if it is not raised the
induced partition is unchanged. -/
theorem snId_relabel {ρ : Int → Int} {rows : List (Int × Int × Bool)} (hv : ValidRows3 rows)
    (hρ : RelabelOn ρ (snIds rows)) :
    (snIdRows (rows.map (snRelabel ρ)) = .error .valueError ↔
        snIdRows rows = .error .valueError) ∧
    (SnAgree rows →
      ∃ res res', snIdRows rows = .ok res ∧ snIdRows (rows.map (snRelabel ρ)) = .ok res' ∧
        ∃ (hl : res.length = rows.length) (hl' : res'.length = rows.length),
        ∀ i (hi : i < rows.length) j (hj : j < rows.length),
          (res'[i] = res'[j] ↔ res[i] = res[j])) := by
  constructor
  · rw [snIdRows_error_iff hv, snIdRows_error_iff (hv.relabel hρ), SnAgree.relabel_iff hρ]
  · intro hag
    obtain ⟨res, hres, hl, h⟩ := snIdRows_spec hv hag
    obtain ⟨res', hres', hl', h'⟩ :=
      snIdRows_spec (hv.relabel hρ) ((SnAgree.relabel_iff hρ).mpr hag)
    refine ⟨res, res', hres, hres', hl, by simpa using hl', ?_⟩
    intro i hi j hj
    rw [h i hi j hj, h' i (by simpa using hi) j (by simpa using hj)]
    simp only [List.getElem_map]
    exact snSame_relabel hv hρ (List.getElem_mem hi) (List.getElem_mem hj)

/-- non-vacuity -/
example : ValidRows3 snEx ∧ RelabelOn rhoEx (snIds snEx) ∧ SnAgree snEx :=
  ⟨⟨by decide, by decide, by decide, by decide⟩, ⟨by decide, by decide, by decide⟩, by decide⟩

example : snIdRows (snEx.map (snRelabel rhoEx)) = .ok [0, 1, 0, 2, 3] := by decide

/-- fg_id: relabelling p_ids and the partner / parent pointers does not change the partition. -/
theorem fg_relabel {ρ : Int → Int} {ps : List Person} (hv : ValidPersons ps)
    (h7 : ValidDependents ps) (hρ : RelabelOn ρ (personIds ps)) :
    ∃ res res', fgId true ps = .ok res ∧ fgId true (ps.map (Person.relabel ρ)) = .ok res' ∧
      ∃ (hl : res.length = ps.length) (hl' : res'.length = ps.length),
      ∀ i (hi : i < ps.length) j (hj : j < ps.length),
        (res'[i] = res'[j] ↔ res[i] = res[j]) := by
  obtain ⟨res, hres, hl, h⟩ := fg_spec hv h7
  obtain ⟨res', hres', hl', h'⟩ := fg_spec (hv.relabel hρ) (h7.relabel hv hρ)
  refine ⟨res, res', hres, hres', hl, by simpa using hl', ?_⟩
  intro i hi j hj
  rw [h i hi j hj, h' i (by simpa using hi) j (by simpa using hj)]
  simp only [List.getElem_map]
  exact fgSame_relabel hv hρ (List.getElem_mem hi) (List.getElem_mem hj)

/-- non-vacuity -/
example : ValidPersons fgExample ∧ ValidDependents fgExample ∧
    RelabelOn rhoEx (personIds fgExample) :=
  ⟨⟨by decide, by decide, by decide, by decide⟩, ⟨by decide, by decide⟩,
    ⟨by decide, by decide, by decide⟩⟩

example : (fgExample.map (Person.relabel rhoEx)).map (·.pid) = [2, 65, 40, 10, 30, 84] ∧
    fgId true (fgExample.map (Person.relabel rhoEx)) = .ok [1, 1, 1, 1, 2, 3] := by decide

/-- bg_id: renumbering the fg ids injectively does not change the partition (fewer than 100
self-sufficient children per family unit). -/
theorem bgId_relabel {ρ : Int → Int} {rows : List (Int × Int × Bool)}
    (hinj : ∀ x ∈ rows, ∀ y ∈ rows, ρ x.1 = ρ y.1 → x.1 = y.1) (hs : BgSmall rows)
    {i j : Nat} (hi : i < rows.length) (hj : j < rows.length) :
    ((bgIdRows (rows.map (bgRelabel ρ)))[i]'(by rw [bgIdRows_length]; simpa using hi) =
        (bgIdRows (rows.map (bgRelabel ρ)))[j]'(by rw [bgIdRows_length]; simpa using hj) ↔
      (bgIdRows rows)[i]'(by rw [bgIdRows_length]; exact hi) =
        (bgIdRows rows)[j]'(by rw [bgIdRows_length]; exact hj)) := by
  refine bgId_partition_congr (BgSmall.relabel hinj hs) hs (by simpa using hi) (by simpa using hj)
    hi hj Iff.rfl ?_ ?_ ?_
  · simp only [List.getElem_map, bgRelabel]
    exact ⟨hinj _ (List.getElem_mem hi) _ (List.getElem_mem hj), fun e => by rw [e]⟩
  · simp only [List.getElem_map, bgRelabel]
  · simp only [List.getElem_map, bgRelabel]

/-- non-vacuity -/
example : (∀ x ∈ bgExT.map (·.2), ∀ y ∈ bgExT.map (·.2),
      (fun f => 50 - f) x.1 = (fun f => 50 - f) y.1 → x.1 = y.1) ∧ BgSmall (bgExT.map (·.2)) := by
  decide

/-- wthh_id: renumbering the household ids injectively does not change the partition. -/
theorem wthhId_relabel {ρ : Int → Int} {rows : List (Int × Bool × Bool)}
    (hinj : ∀ x ∈ rows, ∀ y ∈ rows, ρ x.1 = ρ y.1 → x.1 = y.1)
    {i j : Nat} (hi : i < rows.length) (hj : j < rows.length) :
    ((wthhIdRows (rows.map fun r => (ρ r.1, r.2)))[i]'(by
          rw [wthhIdRows_length]; simpa using hi) =
        (wthhIdRows (rows.map fun r => (ρ r.1, r.2)))[j]'(by
          rw [wthhIdRows_length]; simpa using hj) ↔
      (wthhIdRows rows)[i]'(by rw [wthhIdRows_length]; exact hi) =
        (wthhIdRows rows)[j]'(by rw [wthhIdRows_length]; exact hj)) := by
  rw [wthhIdRows_spec (by simpa using hi) (by simpa using hj), wthhIdRows_spec hi hj]
  simp only [List.getElem_map]
  constructor
  · rintro ⟨e, h⟩; exact ⟨hinj _ (List.getElem_mem hi) _ (List.getElem_mem hj) e, h⟩
  · rintro ⟨e, h⟩; exact ⟨by rw [e], h⟩

/-- non-vacuity -/
example : ∀ x ∈ wthhEx, ∀ y ∈ wthhEx, (fun h => 10 - 3 * h) x.1 = (fun h => 10 - 3 * h) y.1 →
    x.1 = y.1 := by decide

/-! ## 4. Nesting and non-collision across households (C12) -/

/-- Family units nest in households: two persons with the same fg id live in the same household.
(`ValidPersons` contains "partners share the household"; a dependent child is by definition
co-resident with the parent it is attached to.) -/
theorem fg_nests_in_hh {ps : List Person} (hv : ValidPersons ps) (h7 : ValidDependents ps) :
    ∃ res, fgId true ps = .ok res ∧ ∃ hl : res.length = ps.length,
      ∀ i (hi : i < ps.length) j (hj : j < ps.length), res[i] = res[j] → ps[i].hh = ps[j].hh := by
  obtain ⟨res, hres, hl, h⟩ := fg_spec hv h7
  refine ⟨res, hres, hl, fun i hi j hj e => ?_⟩
  exact fgSame_same_hh hv (List.getElem_mem hi) (List.getElem_mem hj) ((h i hi j hj).mp e)

/-- non-vacuity: `fgExample` (patchwork family in household 1, single with adult child in household
2, sparse unsorted ids) -/
example : ValidPersons fgExample ∧ ValidDependents fgExample ∧
    fgId true fgExample = .ok [1, 1, 1, 1, 2, 3] ∧ fgExample.map (·.hh) = [1, 1, 1, 1, 2, 2] :=
  ⟨⟨by decide, by decide, by decide, by decide⟩, ⟨by decide, by decide⟩, by decide, by decide⟩

/-- Needs units nest in households (via `bg_nests_in_fg`; fewer than 100 self-sufficient children
per family unit): for any `eigenbedarf_gedeckt` column, two persons with the same bg id live in
the same household. -/
theorem bg_nests_in_hh {ps : List Person} (hv : ValidPersons ps) (h7 : ValidDependents ps)
    {eigen : List Bool} (he : eigen.length = ps.length) :
    ∃ fg, fgId true ps = .ok fg ∧ ∃ hl : fg.length = ps.length,
      (∀ i, i < fg.length → bgRank fg (ps.map (·.alter)) eigen i < 100) →
      ∀ i (hi : i < ps.length) j (hj : j < ps.length),
        (bgId fg (ps.map (·.alter)) eigen)[i]'(by
            rw [bgId_length _ _ _ (by simp [hl]) (by omega)]; omega) =
          (bgId fg (ps.map (·.alter)) eigen)[j]'(by
            rw [bgId_length _ _ _ (by simp [hl]) (by omega)]; omega) →
        ps[i].hh = ps[j].hh := by
  obtain ⟨fg, hfg, hl, h⟩ := fg_nests_in_hh hv h7
  refine ⟨fg, hfg, hl, fun hlt i hi j hj e => h i hi j hj ?_⟩
  exact bg_nests_in_fg (by simp [hl]) (by omega) hlt (by omega) (by omega) e

/-- non-vacuity: children 41 and 12 and the adult child 9 cover their own needs -/
example :
    let eigen := [true, false, true, true, true, false]
    eigen.length = fgExample.length ∧
    (∀ i, i < [1, 1, 1, 1, 2, 3].length →
      bgRank [1, 1, 1, 1, 2, 3] (fgExample.map (·.alter)) eigen i < 100) ∧
    bgId [1, 1, 1, 1, 2, 3] (fgExample.map (·.alter)) eigen = [101, 100, 102, 100, 200, 300] := by
  decide

/-- Couples nest in family units: two persons with the same eg id (same person or partners, by
`pairId_spec`) have the same fg id — for both variants of the fg algorithm, provided dependent
children have no partner. -/
theorem eg_nests_in_fg (repaired : Bool) {ps : List Person} (hv : ValidPersons ps)
    (h7 : ∀ c ∈ ps, DependentChild ps c → c.partner < 0) :
    ∃ res, fgId repaired ps = .ok res ∧ ∃ hl : res.length = ps.length,
      ∀ i (hi : i < ps.length) j (hj : j < ps.length),
        (pairIdRows (ps.map fun r => (r.pid, r.partner)))[i]'(by
            rw [pairIdRows_length]; simpa using hi) =
          (pairIdRows (ps.map fun r => (r.pid, r.partner)))[j]'(by
            rw [pairIdRows_length]; simpa using hj) →
        res[i] = res[j] := by
  obtain ⟨res, hres, hl, h⟩ := fg_partner_same repaired hv h7
  refine ⟨res, hres, hl, fun i hi j hj e => ?_⟩
  rw [pairIdRows_spec hv.toRows (by simpa using hi) (by simpa using hj)] at e
  simp only [List.getElem_map, PairSame] at e
  rcases e with e | e
  · have : i = j := (nodup_getElem_inj hv.nodup hi hj).mp e
    subst this; rfl
  · exact h i hi j hj e

/-- non-vacuity -/
example : ValidPersons fgExample ∧ (∀ c ∈ fgExample, DependentChild fgExample c → c.partner < 0) ∧
    pairIdRows (fgExample.map fun r => (r.pid, r.partner)) = [0, 1, 2, 1, 3, 4] :=
  ⟨⟨by decide, by decide, by decide, by decide⟩, by decide, by decide⟩

/-- Identifiers of different households never collide: for two persons living in different
households the fg ids differ, the bg ids differ (fewer than 100 self-sufficient children per family
unit, cf. `bg_collision_at_100`) and the wthh ids differ — whatever the flag columns are. -/
theorem ids_of_different_households_never_collide {ps : List Person} (hv : ValidPersons ps)
    (h7 : ValidDependents ps) {eigen v1 v2 : List Bool} (he : eigen.length = ps.length)
    (h1 : v1.length = ps.length) (h2 : v2.length = ps.length) :
    ∃ fg, fgId true ps = .ok fg ∧ ∃ hl : fg.length = ps.length,
      ∀ i (hi : i < ps.length) j (hj : j < ps.length), ps[i].hh ≠ ps[j].hh →
        fg[i] ≠ fg[j] ∧
        ((∀ i, i < fg.length → bgRank fg (ps.map (·.alter)) eigen i < 100) →
          (bgId fg (ps.map (·.alter)) eigen)[i]'(by
              rw [bgId_length _ _ _ (by simp [hl]) (by omega)]; omega) ≠
            (bgId fg (ps.map (·.alter)) eigen)[j]'(by
              rw [bgId_length _ _ _ (by simp [hl]) (by omega)]; omega)) ∧
        (wthhId (ps.map (·.hh)) v1 v2)[i]'(by
            rw [wthhId_length _ _ _ (by simpa using h1) (by simpa using h2)]; simpa using hi) ≠
          (wthhId (ps.map (·.hh)) v1 v2)[j]'(by
            rw [wthhId_length _ _ _ (by simpa using h1) (by simpa using h2)]; simpa using hj) := by
  obtain ⟨fg, hfg, hl, h⟩ := fg_nests_in_hh hv h7
  obtain ⟨fg', hfg', hl', hb⟩ := bg_nests_in_hh hv h7 he
  rw [hfg] at hfg'
  cases hfg'
  refine ⟨fg, hfg, hl, fun i hi j hj hne => ⟨fun e => hne (h i hi j hj e), ?_, ?_⟩⟩
  · exact fun hlt e => hne (hb hlt i hi j hj e)
  · have := wthh_no_collision (hh := ps.map (·.hh)) (v1 := v1) (v2 := v2) (by simpa using h1)
      (by simpa using h2) (i := i) (j := j) (by simpa using hi) (by simpa using hj)
      (by simpa using hne)
    exact this

/-- non-vacuity: persons 3 (row 3, household 1) and 9 (row 4, household 2) -/
example :
    let eigen := [true, false, true, true, true, false]
    let v1 := [false, false, false, false, true, false]
    let v2 := [false, true, false, false, false, false]
    ValidPersons fgExample ∧ ValidDependents fgExample ∧ eigen.length = fgExample.length ∧
    v1.length = fgExample.length ∧ v2.length = fgExample.length ∧
    (fgExample[3]?.map (·.hh)) ≠ (fgExample[4]?.map (·.hh)) ∧
    wthhId (fgExample.map (·.hh)) v1 v2 = [100, 101, 100, 100, 201, 200] :=
  ⟨⟨by decide, by decide, by decide, by decide⟩, ⟨by decide, by decide⟩, by decide, by decide,
    by decide, by decide, by decide⟩

end GV.Groupings
