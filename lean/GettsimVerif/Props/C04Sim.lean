import GettsimVerif.Lemmas.SimTargets
import GettsimVerif.Lemmas.SimRows
import GettsimVerif.Lemmas.SimPlanSub
/-
Property C04 for the CONCRETE end-to-end model `GV.Simulate.simulate`
(`compute_taxes_and_transfers` for toy systems): the column reported for a target does not depend
on which other targets are requested.

In the concrete model the targets enter in FOUR places: (1) `load_and_check_functions` creates
automatic group sums for requested names (`groupAggFns`), (2) data columns are converted according
to the annotations of the functions they override (`convertData`), (3) `dags.create_dag` prunes the
function set to the ancestors of the targets and the rounding specs are looked up for the
necessary functions only (`plan`), (4) the concatenated function evaluates the pruned DAG (`exec`).
The theorems below show that none of these makes the value of a target depend on the other targets.
-/
namespace GV.Simulate
open GV.Lang (Val)

/-- **Step 1: what the concatenated function returns for a target.** If the execution of the
planned DAG succeeds, the column reported for a requested target `t` is the rendering (`render`:
0-d results are broadcast to the number of rows) of the value of `t` in the system of the plan;
the additional pruning to the ancestors of the targets inside the execution is irrelevant. Also
holds when `t` occurs several times in the target list. -/
theorem exec_value {p : Plan} {targets : List String} {tbl : Table} {t : String}
    (h : exec p targets = .ok tbl) (ht : t ∈ targets) :
    ∃ v, Dag.eval p.sys p.data (p.sys.length + 1) t = .ok v ∧ find? tbl t = some (render p.nRows v) := by
  unfold exec at h
  simp only at h
  split at h
  · cases h
  · obtain ⟨c, hc, hfind⟩ := mapM_pair_find
      (fun t => do pure (render p.nRows (← Dag.eval (Dag.prune p.sys p.data (p.sys.length + 1) targets)
        p.data (p.sys.length + 1) t))) targets tbl (by simpa [bind_assoc] using h) t ht
    obtain ⟨v, hv, hc⟩ := bind_ok hc
    simp only [pure, Except.pure, Except.ok.injEq] at hc
    subst hc
    rw [Dag.prune_sound _ _ _ _ t ht] at hv
    exact ⟨v, hv, hfind⟩

/-- **Step 2: the reported column is the value in the UNPRUNED system.** If the simulation
succeeds, the column of a requested target `t` is the rendering (broadcast of scalars to the number
of rows) of the value of `t` in the system that contains a node for EVERY function that is not
overridden by a data column (`fullSys`: nothing pruned, rounding specs looked up on demand),
evaluated over the converted data. So neither the pruning of `dags.create_dag` nor the fact that
`_add_rounding_to_functions` only sees the necessary functions influences a reported value. -/
theorem simulate_value_unpruned (inp : Input) (tbl : Table) (t : String)
    (h : simulate inp = .ok tbl) (ht : t ∈ inp.targets) :
    ∃ pr v, prepare (inp.rules.map (ruleFn inp.rounding)) inp.groupSpecs inp.pidSpecs inp.data
        (sortDedup inp.targets) = .ok pr ∧
      Dag.eval (fullSys inp.params pr.fns) pr.data (pr.fns.length + 1) t = .ok v ∧
      find? tbl t = some (render ((pr.data.head?.map (·.2.vals.length)).getD 0) v) := by
  unfold simulate run at h
  simp only at h
  obtain ⟨pr, hpr, h⟩ := bind_ok h
  obtain ⟨p, hp, h⟩ := bind_ok h
  obtain ⟨v, hv, hfind⟩ := exec_value h ((mem_sortDedup t _).2 ht)
  obtain ⟨nn, pn, specs, _, hsys, hdata, hrows⟩ := plan_ok hp
  refine ⟨pr, v, hpr, ?_, by rw [← hrows]; exact hfind⟩
  have hle : p.sys.length + 1 ≤ pr.fns.length + 1 := by
    rw [hsys, List.length_map]
    exact Nat.succ_le_succ (Nat.le_trans (List.length_filter_le _ _) (List.length_filter_le _ _))
  rw [hdata] at hv
  have := Dag.eval_ok_sub _ _ pr.data (plan_sub_full (prepare_fns_nodup hpr) hp) _ t v hv
  exact Dag.eval_fuel_le _ _ hle t v this

/-- **Step 3a: the function sets for two target lists agree where both are defined.** Let `all`,
`all'` be the dictionaries `all_functions` of `load_and_check_functions` for the target lists `T`
and `T'` (same rules, aggregation specs and data columns). A name defined in both has the SAME
definition (same arguments, annotation, kind) in both. -/
theorem buildFunctions_targets_agree {ruleFns : List Fn} {gs : List (String × GroupSpec)}
    {ps : List (String × PidSpec)} {T T' dataCols : List String} {all all' : List Fn}
    (h : buildFunctions ruleFns gs ps T dataCols = .ok all)
    (h' : buildFunctions ruleFns gs ps T' dataCols = .ok all') (n : String) (f f' : Fn)
    (hf : findFn? all n = some f) (hf' : findFn? all' n = some f') : f = f' :=
  (buildFunctions_targets h h' n f hf).1 f' hf'

/-- **Step 3b: a function that exists for `T` only is an automatic group sum requested by `T`.**
If `n` is defined in `all` (targets `T`) but not in `all'` (targets `T'`), then `n ∈ T`, `n` is not
the `source_col` of an aggregation spec and not an argument of any rule, p_id aggregation or time
conversion function (`pid` = the p_id aggregation functions; the list is the argument `functions`
of `_create_aggregate_by_group_functions`): these are exactly the names for which automatic group
sums are created besides the targets (after the commit "fix: automatic group sums are also created
for the source columns of aggregation specifications"). -/
theorem buildFunctions_targets_only {ruleFns : List Fn} {gs : List (String × GroupSpec)}
    {ps : List (String × PidSpec)} {T T' dataCols : List String} {all all' : List Fn}
    (h : buildFunctions ruleFns gs ps T dataCols = .ok all)
    (h' : buildFunctions ruleFns gs ps T' dataCols = .ok all') (n : String) (f : Fn)
    (hf : findFn? all n = some f) (hf' : findFn? all' n = none) :
    n ∈ T ∧ n ∉ gs.filterMap (fun (_, s) => s.source) ∧
    ∃ pid, pidFns (merge [] ruleFns) dataCols ps = .ok pid ∧
      n ∉ (merge (merge (timeConvFns (merge (merge [] ruleFns) pid) dataCols) (merge [] ruleFns)) pid).flatMap
        (·.args) := by
  obtain ⟨h1, _, h3, pid, hpid, h4, _⟩ := (buildFunctions_targets h h' n f hf).2 hf'
  exact ⟨h1, h3, pid, hpid, h4⟩

/-- **C04 for the concrete model: the column of a target is independent of the other targets.**
If two calls of `compute_taxes_and_transfers` differ only in the list of targets and both succeed,
a target requested in both gets exactly the same column.
(Whether a call SUCCEEDS may still depend on the other targets in one corner: an automatic group
sum that is used only as argument of a group-id constructor (`wohngeld_vorrang_bg`,
`wohngeld_kinderzuschl_vorrang_bg` of `wthh_id`) exists only if it is requested as a target itself.
The analogous dependence for the `source_col` of aggregation specs was a defect of the Python code
and has been repaired, see `C04SimExamples.sys2`.) -/
theorem simulate_target_indep (inp : Input) (T T' : List String) (t : String) (tbl tbl' : Table)
    (h : simulate { inp with targets := T } = .ok tbl)
    (h' : simulate { inp with targets := T' } = .ok tbl')
    (ht : t ∈ T) (ht' : t ∈ T') : find? tbl t = find? tbl' t := by
  unfold simulate run at h h'
  simp only at h h'
  obtain ⟨pr, hpr, h⟩ := bind_ok h
  obtain ⟨p, hp, h⟩ := bind_ok h
  obtain ⟨pr', hpr', h'⟩ := bind_ok h'
  obtain ⟨p', hp', h'⟩ := bind_ok h'
  obtain ⟨hdata, _, hagree⟩ := prepare_targets hpr hpr'
  obtain ⟨v, hv, hfind⟩ := exec_value h ((mem_sortDedup t T).2 ht)
  obtain ⟨v', hv', hfind'⟩ := exec_value h' ((mem_sortDedup t T').2 ht')
  obtain ⟨_, _, _, _, _, hpd, hrows⟩ := plan_ok hp
  obtain ⟨_, _, _, _, _, hpd', hrows'⟩ := plan_ok hp'
  have hD : p'.data = p.data := by rw [hpd, hpd', hdata]
  have hR : p'.nRows = p.nRows := by rw [hrows, hrows', hdata]
  rw [hD] at hv'
  have hvv : v = v' := by
    refine Dag.eval_ok_agree p.sys p'.sys p.data ?_ _ _ t v v' hv hv'
    intro x nd nd' hx hx'
    obtain ⟨f, hf, rfl⟩ := plan_sys_find (prepare_fns_nodup hpr) hp hx
    obtain ⟨f', hf', rfl⟩ := plan_sys_find (prepare_fns_nodup hpr') hp' hx'
    have := hagree x f f' hf hf'
    subst this
    exact ⟨rfl, fun _ => rfl⟩
  rw [hfind, hfind', hR, hvv]

/-- **Dropping targets keeps a call successful (one-sided success).** If the call with targets `T`
succeeds, the call with any sub-list `T' ⊆ T` succeeds as well and reports the same columns,
provided that
* `hgrp`: the two arguments of the group-id constructor `wthh_id` that are named like a group
  aggregate (`wohngeld_vorrang_bg`, `wohngeld_kinderzuschl_vorrang_bg`) are, if requested in `T`,
  also requested in `T'` (arguments of the group-id constructors are NOT among the names for which
  automatic group sums are created, so such a sum exists only when it is a target), and
* `hp`: no p_id aggregation is named like a rule or like a time-conversion variant of a data column
  (the dictionaries are merged in two different orders, `{**tc, **rules, **pid}` for the
  candidates of automatic sums and `{**pid, **tc, **rules, …}` for the functions themselves).
Both hypotheses are necessary, see `C04SimExamples.sysGrp` / `sysPid`. After the commit "fix:
automatic group sums are also created for the source columns of aggregation specifications" these
are the only two ways in which the SUCCESS of a call can depend on additional targets. (The
converse direction fails for a trivial reason: more targets mean more nodes that can fail.) -/
theorem simulate_subtargets_succeed (inp : Input) (T T' : List String) (tbl : Table)
    (h : simulate { inp with targets := T } = .ok tbl) (hsub : ∀ t ∈ T', t ∈ T)
    (hgrp : ∀ a ∈ ["wohngeld_vorrang_bg", "wohngeld_kinderzuschl_vorrang_bg"], a ∈ T → a ∈ T')
    (hp : ∀ p ∈ inp.pidSpecs, p.1 ∉ inp.rules.map (·.name) ∧
      ∀ c ∈ inp.data.map (·.1), p.1 ∉ (TimeConv.derivedOf c []).map (·.name)) :
    ∃ tbl', simulate { inp with targets := T' } = .ok tbl' ∧ ∀ t ∈ T', find? tbl' t = find? tbl t := by
  have hnames : (inp.rules.map (ruleFn inp.rounding)).map (·.name) = inp.rules.map (·.name) := by
    rw [List.map_map]; rfl
  obtain ⟨tbl', h'⟩ : ∃ tbl', simulate { inp with targets := T' } = .ok tbl' := by
    unfold simulate at h ⊢
    exact run_sub h hsub hgrp (by simpa only [hnames] using hp)
  exact ⟨tbl', h', fun t ht => simulate_target_indep inp T' T t tbl' tbl h' h ht (hsub t ht)⟩

/-- **A target of a successful call can be computed alone**, with the same column: the special
case `T' = [t]` of `simulate_subtargets_succeed`. -/
theorem simulate_target_alone_succeeds (inp : Input) (T : List String) (t : String) (tbl : Table)
    (h : simulate { inp with targets := T } = .ok tbl) (ht : t ∈ T)
    (hgrp : ∀ a ∈ ["wohngeld_vorrang_bg", "wohngeld_kinderzuschl_vorrang_bg"], a ∈ T → a = t)
    (hp : ∀ p ∈ inp.pidSpecs, p.1 ∉ inp.rules.map (·.name) ∧
      ∀ c ∈ inp.data.map (·.1), p.1 ∉ (TimeConv.derivedOf c []).map (·.name)) :
    ∃ tbl', simulate { inp with targets := [t] } = .ok tbl' ∧ find? tbl' t = find? tbl t := by
  obtain ⟨tbl', h', hcol⟩ := simulate_subtargets_succeed inp T [t] tbl h
    (fun x hx => by rw [List.mem_singleton] at hx; exact hx ▸ ht)
    (fun a ha haT => by rw [List.mem_singleton]; exact hgrp a ha haT) hp
  exact ⟨tbl', h', hcol t List.mem_cons_self⟩

/-- **Order and duplicates of the target list are irrelevant.** Two target lists with the same
`sorted(set(·))` give literally the same outcome (table or error). -/
theorem simulate_targets_perm_dup (inp : Input) (T T' : List String)
    (h : sortDedup T = sortDedup T') :
    simulate { inp with targets := T } = simulate { inp with targets := T' } := by
  unfold simulate run
  simp only [h]

/-- **One result row per input row.** Let `nRowsOf inp` be the length of the first data column.
If all data columns have that length (the model does not check this; pandas guarantees it for a
`DataFrame`) and the simulation succeeds, every result column has exactly `nRowsOf inp` entries:
0-d results are broadcast, all other nodes (vectorized rules, time conversions, aggregations by
group / by p_id, group-id constructors) produce one value per row. -/
theorem simulate_rows (inp : Input) (tbl : Table) (h : simulate inp = .ok tbl)
    (hlen : ∀ c ∈ inp.data, c.2.length = nRowsOf inp) : ∀ c ∈ tbl, c.2.length = nRowsOf inp := by
  unfold simulate run at h
  simp only at h
  obtain ⟨pr, hpr, h⟩ := bind_ok h
  obtain ⟨p, hp, h⟩ := bind_ok h
  obtain ⟨_, _, specs, _, hsys, hdata, hrows⟩ := plan_ok hp
  obtain ⟨hl, hcols⟩ := prepare_data_lengths hpr
  have hgoodD : ∀ e ∈ pr.data, e.2.vals.length = nRowsOf inp := by
    intro e he
    obtain ⟨a, ha, hea⟩ := hcols e he
    rw [hea]; exact hlen a ha
  have hn : p.nRows = nRowsOf inp := by
    rw [hrows]
    cases hd : pr.data with
    | nil =>
      rw [hd] at hl
      have : inp.data = [] := List.length_eq_zero_iff.1 hl.symm
      simp [nRowsOf, this]
    | cons e rest =>
      simp only [List.head?_cons, Option.map_some, Option.getD_some]
      exact hgoodD e (by rw [hd]; exact List.mem_cons_self)
  unfold exec at h
  simp only at h
  split at h
  · cases h
  · intro c hc
    obtain ⟨t, _, hct⟩ := mapM_mem_out h c hc
    obtain ⟨v, hv, hct⟩ := bind_ok hct
    simp only [pure, Except.pure, Except.ok.injEq] at hct
    subst hct
    simp only
    rw [hn]
    apply render_length
    refine Dag.eval_invariant _ p.data (Good (nRowsOf inp)) ?_ ?_ _ t v hv
    · intro x c hx _
      have := Dag.find?_mem _ _ _ hx
      rw [hdata] at this
      exact hgoodD _ this
    · intro x nd hx args c hargs hop
      have hmem := ((Dag.prune_spec _ _ _ _ _).1 (Dag.find?_mem _ _ _ hx)).1
      rw [hsys, List.mem_map] at hmem
      obtain ⟨f, _, hf⟩ := hmem
      simp only [Prod.mk.injEq] at hf
      rw [← hf.2] at hop
      exact nodeOf_good _ specs f args c hargs hop

/-! ### non-vacuity -/

namespace C04SimExamples
open GV.Lang

/-- `a_m(x) = x * 2`, `b(a_m) = a_m + 1`; `a_m_hh` (automatic group sum) and `a_y` (time
conversion) only exist because they are derived from `a_m` -/
def sys : Input :=
  { rules := [
      { name := "a_m", ret := some .float,
        fn := { name := "a_m", args := ["x"], body := [.ret (.bin .mul (.name "x") (.const (.int 2)))] } },
      { name := "b", ret := some .float,
        fn := { name := "b", args := ["a_m"], body := [.ret (.bin .add (.name "a_m") (.const (.int 1)))] } }],
    data := [("p_id", [.int 0, .int 1, .int 2]), ("hh_id", [.int 0, .int 0, .int 1]),
             ("x", [.flt 1, .flt (5/2), .flt 4])],
    targets := [] }

def T1 : List String := ["a_m_hh", "b"]
def T2 : List String := ["a_m_hh"]
def T3 : List String := ["b", "a_y", "a_m_hh", "b"]

theorem ok_of_toBool {x : Except Err Table} (h : x.toBool = true) : ∃ tbl, x = .ok tbl := by
  cases x with
  | error e => cases h
  | ok tbl => exact ⟨tbl, rfl⟩

/-- all three calls succeed -/
theorem ok1 : (simulate { sys with targets := T1 }).toBool = true := by decide +kernel
theorem ok2 : (simulate { sys with targets := T2 }).toBool = true := by decide +kernel
theorem ok3 : (simulate { sys with targets := T3 }).toBool = true := by decide +kernel

/-- the hypotheses of `simulate_target_indep` (and of `simulate_value_unpruned`, `exec_value`) are
satisfiable: two different target lists, both succeed, `a_m_hh` is requested in both -/
example : ∃ tbl tbl', simulate { sys with targets := T1 } = .ok tbl ∧
    simulate { sys with targets := T2 } = .ok tbl' ∧ "a_m_hh" ∈ T1 ∧ "a_m_hh" ∈ T2 ∧ T1 ≠ T2 := by
  obtain ⟨tbl, h⟩ := ok_of_toBool ok1
  obtain ⟨tbl', h'⟩ := ok_of_toBool ok2
  exact ⟨tbl, tbl', h, h', by decide, by decide, by decide⟩

example : ∃ tbl tbl', simulate { sys with targets := T1 } = .ok tbl ∧
    simulate { sys with targets := T3 } = .ok tbl' ∧ "b" ∈ T1 ∧ "b" ∈ T3 := by
  obtain ⟨tbl, h⟩ := ok_of_toBool ok1
  obtain ⟨tbl', h'⟩ := ok_of_toBool ok3
  exact ⟨tbl, tbl', h, h', by decide, by decide⟩

/-- … and the common column is a real one: `a_m_hh = [7, 7, 8]`, reported identically -/
example : (match simulate { sys with targets := T1 }, simulate { sys with targets := T2 } with
    | .ok t, .ok t' =>
      ((find? t "a_m_hh").map (·.map Examples.fmtVal)) == some ["7.000000", "7.000000", "8.000000"] &&
      ((find? t' "a_m_hh").map (·.map Examples.fmtVal)) == some ["7.000000", "7.000000", "8.000000"]
    | _, _ => false) = true := by decide +kernel

/-- Step 3 is about a real phenomenon: the function `a_m_hh` exists only if it is requested
(hypotheses of `buildFunctions_targets_only`), whereas `b` exists for both target lists
(hypotheses of `buildFunctions_targets_agree`) -/
example : (match buildFunctions (sys.rules.map (ruleFn true)) [] [] T1 ["p_id", "hh_id", "x"],
      buildFunctions (sys.rules.map (ruleFn true)) [] [] ["b"] ["p_id", "hh_id", "x"] with
    | .ok all, .ok all' => hasFn all "a_m_hh" && !hasFn all' "a_m_hh" && hasFn all "b" && hasFn all' "b"
    | _, _ => false) = true := by decide +kernel

/-- `simulate_targets_perm_dup`: `T3` with its duplicate and a permutation of it -/
example : sortDedup T3 = sortDedup ["a_y", "b", "a_m_hh"] := by decide +kernel

/-- the hypothesis of `simulate_rows` holds for `sys` (3 rows) -/
example : nRowsOf { sys with targets := T3 } = 3 ∧
    ∀ c ∈ ({ sys with targets := T3 } : Input).data, c.2.length = nRowsOf { sys with targets := T3 } := by
  decide

/-- the requirement "both calls succeed" cannot be dropped for free: a target list may fail as a
whole (`nope` does not exist) while a sub-list succeeds -/
example : (simulate { sys with targets := ["a_m_hh", "nope"] }).toBool = false := by decide +kernel

/-- Regression example for a repaired defect. `mx_hh` is a user spec `max` over the automatic
group sum `a_m_hh`. Before the commit "fix: automatic group sums are also created for the source
columns of aggregation specifications" the source columns of aggregation specs were not among the
names for which `load_and_check_functions` creates automatic sums (only arguments of rules / p_id
aggregations / time conversions and the targets were), so `a_m_hh` existed only if it was requested
as well: alone, `mx_hh` failed with the "missing root nodes" `ValueError` although it was computed
when requested together with `a_m_hh` — SUCCESS depended on the other targets. This was a defect of
the Python code; now both target lists succeed, with the same `mx_hh` column (as
`simulate_target_indep` demands). -/
def sys2 : Input := { sys with groupSpecs := [("mx_hh", { aggr := .max, source := some "a_m_hh" })] }

example : (match simulate { sys2 with targets := ["mx_hh"] },
      simulate { sys2 with targets := ["mx_hh", "a_m_hh"] } with
    | .ok t, .ok t' =>
      ((find? t "mx_hh").map (·.map Examples.fmtVal)) == some ["7.000000", "7.000000", "8.000000"] &&
      ((find? t' "mx_hh").map (·.map Examples.fmtVal)) == some ["7.000000", "7.000000", "8.000000"] &&
      t.length == 1 && t'.length == 2
    | _, _ => false) = true := by decide +kernel

/-- the source column of a `count` spec counts as well (`"source_col" in spec` in Python) -/
def sys3 : Input := { sys with groupSpecs := [("n_hh", { aggr := .count, source := some "a_m_hh" })] }

example : (match buildFunctions (sys3.rules.map (ruleFn true)) sys3.groupSpecs [] ["n_hh"] ["p_id", "hh_id", "x"] with
    | .ok all => hasFn all "a_m_hh" && hasFn all "n_hh"
    | _ => false) = true := by decide +kernel

/-- the hypotheses of `simulate_subtargets_succeed` / `simulate_target_alone_succeeds` hold for
`sys` with `T3 ⊇ T1` (no p_id aggregations, the `wthh_id` arguments are not requested) -/
example : (∀ t ∈ T1, t ∈ T3) ∧
    (∀ a ∈ ["wohngeld_vorrang_bg", "wohngeld_kinderzuschl_vorrang_bg"], a ∈ T3 → a ∈ T1) ∧
    (∀ p ∈ sys.pidSpecs, p.1 ∉ sys.rules.map (·.name) ∧
      ∀ c ∈ sys.data.map (·.1), p.1 ∉ (TimeConv.derivedOf c []).map (·.name)) := by
  refine ⟨by decide, by decide, ?_⟩
  intro p hp; cases hp

/-- `hgrp` is necessary: `wthh_id` needs `wohngeld_vorrang_bg` and
`wohngeld_kinderzuschl_vorrang_bg`; here they are automatic group sums of two rules, which exist
only when requested: with them the call succeeds, `wthh_id` alone fails ("missing root nodes"). -/
def sysGrp : Input :=
  { rules := [Examples.rule "wohngeld_vorrang" ["x"] (Examples.gt (Examples.nm "x") (Examples.it 3)) (some .bool),
              Examples.rule "wohngeld_kinderzuschl_vorrang" ["x"] (Examples.gt (Examples.nm "x") (Examples.it 5)) (some .bool)],
    data := Examples.d9.filter fun c => c.1 != "wohngeld_vorrang_bg" && c.1 != "wohngeld_kinderzuschl_vorrang_bg",
    targets := [] }

example : (simulate { sysGrp with targets :=
      ["wthh_id", "wohngeld_vorrang_bg", "wohngeld_kinderzuschl_vorrang_bg"] }).toBool = true ∧
    (simulate { sysGrp with targets := ["wthh_id"] }).toBool = false := by decide +kernel

/-- `hp` is necessary: the rule `got(a_m_hh)` is named like the p_id aggregation `got`; the rule
wins in `all_functions`, but the candidates for automatic sums are taken from the arguments of the
p_id aggregation, so `a_m_hh` exists only when requested. -/
def sysPid : Input :=
  { rules := [Examples.a_m, Examples.rule "got" ["a_m_hh"] (Examples.nm "a_m_hh") (some .float)],
    data := Examples.base ++ [("x", Examples.xs), ("p_id_recv", Examples.recv)],
    pidSpecs := [("got", ⟨"p_id_recv", "a_m"⟩)],
    targets := [] }

example : (simulate { sysPid with targets := ["got", "a_m_hh"] }).toBool = true ∧
    (simulate { sysPid with targets := ["got"] }).toBool = false := by decide +kernel

end C04SimExamples

end GV.Simulate
