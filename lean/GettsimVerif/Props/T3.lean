import GettsimVerif.Lemmas.Simulate
/-
Small structural theorems about the end-to-end model `GV.Simulate.simulate`
(`compute_taxes_and_transfers` for toy systems).
-/
namespace GV.Simulate

/-- **Result columns = sorted, de-duplicated targets.** If the simulation succeeds, the names of
the result columns are `sorted(set(targets))` (strictly increasing, same members as `targets`:
`sortDedup_pairwise`, `mem_sortDedup`). -/
theorem simulate_targets_sorted_dedup {inp : Input} {tbl : Table}
    (h : simulate inp = .ok tbl) : tbl.map (·.1) = sortDedup inp.targets :=
  run_names h

/-! ### a target that is a data column -/

/-- **A target that is a data column is an error.** The real code puts the function of that name
among the overridden ones, and `dags.create_dag` then raises `MissingFunctionsError` (or an
earlier check fails): the call never returns a table. -/
theorem simulate_target_in_data_errors {inp : Input} {t : String}
    (ht : t ∈ inp.targets) (hd : t ∈ inp.data.map (·.1)) : ∀ tbl, simulate inp ≠ .ok tbl := by
  intro tbl h
  unfold simulate run at h
  obtain ⟨pr, hpr, _⟩ := bind_ok h
  exact prepare_targets_not_data hpr t ((mem_sortDedup t _).mpr ht) hd

/-- **Data columns override functions.** Whenever the preparation succeeds, no function that can
take part in the evaluation (`functions_not_overridden`, from which the DAG is built) is named like
a data column: for such a name the data column is used and the function is never computed. -/
theorem simulate_override {ruleFns : List Fn} {gs : List (String × GroupSpec)}
    {ps : List (String × PidSpec)} {data : List (String × Column)} {targets : List String} {pr : Prep}
    (h : prepare ruleFns gs ps data targets = .ok pr) :
    ∀ f ∈ pr.fns, f.name ∉ data.map (·.1) :=
  prepare_fns_not_data h

/-! ### rounding switched off -/

/-- forget all rounding keys -/
def stripKeys (rules : List Rule) : List Rule := rules.map fun r => { r with roundingKey := none }

/-- **With `rounding = False` the rounding keys are irrelevant**: replacing every
`params_key_for_rounding` by `None` gives the same result (table or error). -/
theorem simulate_rounding_off_eq (inp : Input) :
    simulate { inp with rounding := false, rules := stripKeys inp.rules } =
    simulate { inp with rounding := false } := by
  unfold simulate stripKeys
  simp only [List.map_map]
  congr 1

/-! ### non-vacuity -/

namespace T3Examples
open GV.Lang

/-- `a_m(x) = x * 2`, rounded to multiples of 5 upwards; requested as `a_y`, `a_m_hh` (twice) -/
def amFn : FunDef :=
  { name := "a_m", args := ["x"], body := [.ret (.bin .mul (.name "x") (.const (.int 2)))] }

def okSys : Input :=
  { rules := [{ name := "a_m", fn := amFn, ret := some .float, roundingKey := some "grp" }],
    params := [("grp", .tree (.dict [(.s "rounding",
      .dict [(.s "a_m", .dict [(.s "base", .num 5), (.s "direction", .str "up")])])]))],
    data := [("p_id", [.int 0, .int 1]), ("hh_id", [.int 0, .int 0]), ("x", [.flt 1, .flt (5/2)])],
    targets := ["a_y", "a_m_hh", "a_y"] }

/-- the hypothesis of `simulate_targets_sorted_dedup` is satisfiable, with duplicated and
unsorted targets -/
example : (simulate okSys).toBool = true := by decide +kernel
example : (match simulate okSys with
    | .ok t => t.map (·.1) == ["a_m_hh", "a_y"] && sortDedup okSys.targets == ["a_m_hh", "a_y"]
    | .error _ => false) = true := by decide +kernel

/-- the hypotheses of `simulate_target_in_data_errors` hold for `x` (and the error is the model of
`MissingFunctionsError`, here because `x` is no function at all: ValueError) -/
def badSys : Input := { okSys with targets := ["a_m", "x"] }
example : "x" ∈ badSys.targets ∧ "x" ∈ badSys.data.map (·.1) := by decide
/-- … and for a target that IS a function overridden by a data column: `Err.other` -/
def badSys2 : Input := { okSys with targets := ["a_m"], data := okSys.data ++ [("a_m", [.flt 1, .flt 2])] }
example : "a_m" ∈ badSys2.targets ∧ "a_m" ∈ badSys2.data.map (·.1) := by decide
example : (match simulate badSys2 with | .error .other => true | _ => false) = true := by decide +kernel

/-- `simulate_override`: the preparation of `okSys` with the column `a_m` added succeeds (for the
target `a_y`), and the rule `a_m` is indeed dropped -/
example : (match prepare (okSys.rules.map (ruleFn true)) [] [] (okSys.data ++ [("a_m", [.flt 1, .flt 2])]) ["a_y"] with
    | .ok pr => !hasFn pr.fns "a_m" && hasFn pr.fns "a_y"
    | .error _ => false) = true := by decide +kernel

/-- `simulate_rounding_off_eq` is not trivial: with rounding ON the keys do matter -/
example : (match simulate okSys, simulate { okSys with rules := stripKeys okSys.rules } with
    | .ok a, .ok b => a.map (·.2.length) == b.map (·.2.length) && !(a.map (·.1) != b.map (·.1)) &&
        (match a, b with
         | (_, (.flt u) :: _) :: _, (_, (.flt v) :: _) :: _ => u != v
         | _, _ => false)
    | _, _ => false) = true := by decide +kernel

end T3Examples

end GV.Simulate
