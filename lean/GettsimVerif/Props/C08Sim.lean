import GettsimVerif.Lemmas.SimMisc
/-
Property C08 for the CONCRETE planning stage `plan` of `Core/Simulate.lean` (`set_up_dag`,
`_add_rounding_to_functions`, `_partial_parameters_to_functions`,
`_fail_if_root_nodes_are_missing`): "the dependency graph is acyclic, each of its leaves is an
input … no valid population makes the simulation fail with a missing column" — and the fuel
`p.sys.length + 1` with which `exec` evaluates the planned DAG is never the reason for an error.

All theorems are about a plan `p` with `plan params targets pr = .ok p`. The hypothesis
`(pr.fns.map (·.name)).Nodup` (the function set is a dictionary) holds for every `pr` returned by
`prepare` (`prepare_fns_nodup`).
-/
namespace GV.Simulate
open GV.Lang (Val)

/-- **The leaves of a successful plan.** Every dependency `d` (an argument that was not
partialled away as a parameter) of every node of the planned system is
* itself a node of the system, or
* a data column, or
* the name of a necessary function ALL of whose arguments are parameter arguments `<g>_params`
  (such a function needs no column at all; `_fail_if_root_nodes_are_missing` accepts root nodes that
  are functions).
Any other name would be listed in `missing`, and `plan` would have failed with the
"missing root nodes" `ValueError`. This version needs no assumption on `pr`; under the
guarantees of `prepare` the third case is subsumed by the first (`plan_roots_are_data`). -/
theorem plan_roots_are_data_general (params : List (String × Val)) (targets : List String) (pr : Prep)
    (p : Plan) (h : plan params targets pr = .ok p) :
    ∀ e ∈ p.sys, ∀ d ∈ e.2.deps,
      (find? p.sys d).isSome = true ∨ d ∈ pr.dataCols ∨
        ∃ f ∈ pr.fns, f.name = d ∧ f.args.all isParamArg = true ∧ freeArgs params f ⊆ f.args := by
  obtain ⟨_, specs, _, hp⟩ := rnd_plan_ok h
  intro e he d hd
  rcases mi_planWith_roots hp e he d hd with h1 | h2 | ⟨f, hf, hname, hall⟩
  · exact Or.inl h1
  · exact Or.inr (Or.inl h2)
  · exact Or.inr (Or.inr ⟨f, (List.mem_filter.1 hf).1, hname, hall, mi_freeArgs_sub params f⟩)

/-- **A successful plan is complete.** If the function set is a dictionary (distinct names) and no
function is named like a data column (both guaranteed by `prepare`, see `prepare_guarantees`), then
every dependency of every node of the planned system is itself a node of the system or a data
column: evaluating the planned DAG never looks up a name that is bound to nothing. (A function
whose arguments are all parameters is a node without dependencies; that the second pruning
`dags.create_dag` keeps it whenever it keeps a function that depends on it follows from the depth
bound given by the cycle check.) -/
theorem plan_roots_are_data (params : List (String × Val)) (targets : List String) (pr : Prep)
    (p : Plan) (hnd : (pr.fns.map (·.name)).Nodup) (hfd : ∀ f ∈ pr.fns, f.name ∉ pr.dataCols)
    (h : plan params targets pr = .ok p) :
    ∀ e ∈ p.sys, ∀ d ∈ e.2.deps, (find? p.sys d).isSome = true ∨ d ∈ pr.dataCols :=
  mi_plan_roots_strong hnd hfd h

/-- the guarantees of `prepare` used above: distinct function names, no function named like a data
column, and the converted data have exactly the columns `dataCols` -/
theorem prepare_guarantees (ruleFns : List Fn) (gs : List (String × GroupSpec))
    (ps : List (String × PidSpec)) (data : List (String × Column)) (targets : List String) (pr : Prep)
    (h : prepare ruleFns gs ps data targets = .ok pr) :
    (pr.fns.map (·.name)).Nodup ∧ (∀ f ∈ pr.fns, f.name ∉ pr.dataCols) ∧
      pr.data.map (·.1) = pr.dataCols :=
  mi_prepare_hyps h

/-- **End to end: no missing column.** If `prepare` and `plan` succeed, every dependency of every
node of the planned system is bound: it is a node of the system or a column of the (converted)
data over which the system is evaluated. -/
theorem simulate_plan_complete (ruleFns : List Fn) (gs : List (String × GroupSpec))
    (ps : List (String × PidSpec)) (data : List (String × Column)) (targets : List String)
    (params : List (String × Val)) (pr : Prep) (p : Plan)
    (hpr : prepare ruleFns gs ps data targets = .ok pr) (h : plan params targets pr = .ok p) :
    ∀ e ∈ p.sys, ∀ d ∈ e.2.deps,
      (find? p.sys d).isSome = true ∨ (find? p.data d).isSome = true := by
  obtain ⟨hnd, hfd, hdata⟩ := mi_prepare_hyps hpr
  obtain ⟨_, _, _, _, _, hpd, _⟩ := plan_ok h
  intro e he d hd
  rcases mi_plan_roots_strong hnd hfd h e he d hd with h1 | h2
  · exact Or.inl h1
  · right
    unfold find?
    rw [Dag.find?_isSome_iff, hpd, hdata]
    exact h2

/-- the dependencies of a node are the arguments of its function that were not partialled -/
theorem plan_node_deps (params : List (String × Val)) (targets : List String) (pr : Prep)
    (p : Plan) (h : plan params targets pr = .ok p) (t : String) (node : Dag.Node Col)
    (ht : find? p.sys t = some node) :
    ∃ f ∈ pr.fns, f.name = t ∧ node.deps = freeArgs params f := by
  obtain ⟨_, specs, _, hp⟩ := rnd_plan_ok h
  obtain ⟨f, hf, hname, hdeps⟩ := mi_planWith_find hp ht
  exact ⟨f, (List.mem_filter.1 hf).1, hname, hdeps⟩

/-- **A successful plan is acyclic, and `p.order` is a topological order of it.** The execution
order `p.order` (the lexicographical topological sort of the graph of the processed functions,
restricted to the function nodes) lists every node of the planned system `p.sys` exactly once —
and nothing else —, and every dependency of a node that is itself a node appears EARLIER in
`p.order` than the node. So the concatenated function executes each node after its inputs.

(Proof: Kahn's algorithm `topoLoop` only ever appends a node all of whose predecessors are done
(`mi_topoLoop_good`); the cycle check `hasCycle = false` on the graph of the necessary functions
gives a rank that decreases along every edge; the graph of the PROCESSED functions — fewer nodes,
fewer edges — inherits this rank, hence passes the cycle check too (`acyclic_of_rank` of
`Lemmas/SimKahn.lean`), hence its `topoOrder` visits every node.) -/
theorem plan_acyclic (params : List (String × Val)) (targets : List String) (pr : Prep)
    (p : Plan) (hnd : (pr.fns.map (·.name)).Nodup) (h : plan params targets pr = .ok p) :
    p.order.Nodup ∧ (∀ n, n ∈ p.order ↔ (find? p.sys n).isSome = true) ∧
      ∀ n node, find? p.sys n = some node → ∀ d ∈ node.deps, (find? p.sys d).isSome = true →
        ∃ pre post, p.order = pre ++ n :: post ∧ d ∈ pre :=
  mi_plan_order hnd h

/-- **The fuel suffices.** For every name `t` there is a depth `k ≤ p.sys.length` such that the
evaluation of `t` in the planned system gives the same RESULT — value or error — for every fuel
above `k`. So the bound `p.sys.length + 1` used by `exec` is never the source of an error: the
fuel-exhaustion error of the model cannot occur, and whatever error is reported is reported for
every larger fuel as well. -/
theorem exec_fuel_suffices (params : List (String × Val)) (targets : List String) (pr : Prep)
    (p : Plan) (hnd : (pr.fns.map (·.name)).Nodup) (h : plan params targets pr = .ok p) (t : String) :
    ∃ k, k ≤ p.sys.length ∧ ∀ fuel, k < fuel →
      Dag.eval p.sys p.data fuel t = Dag.eval p.sys p.data (k + 1) t := by
  obtain ⟨rank, hle, hrank⟩ := mi_plan_rank hnd h
  refine ⟨rank t, hle t, fun fuel hf => ?_⟩
  exact mi_eval_fuel_stable p.sys p.data rank (fun n node _ hS => hrank n node hS) (rank t) t
    (Nat.le_refl _) fuel hf

/-- corollary: the result with the fuel of `exec` is the result with ANY larger fuel -/
theorem exec_fuel_enough (params : List (String × Val)) (targets : List String) (pr : Prep)
    (p : Plan) (hnd : (pr.fns.map (·.name)).Nodup) (h : plan params targets pr = .ok p) (t : String)
    (fuel : Nat) (hf : p.sys.length + 1 ≤ fuel) :
    Dag.eval p.sys p.data fuel t = Dag.eval p.sys p.data (p.sys.length + 1) t := by
  obtain ⟨k, hk, hst⟩ := exec_fuel_suffices params targets pr p hnd h t
  rw [hst fuel (by omega), hst (p.sys.length + 1) (by omega)]

/-- the general fact behind it, for any system: if every dependency of a function node has a
smaller rank than the node, the evaluation with any fuel above the rank gives the result (value or
error) obtained with fuel `rank + 1` -/
theorem eval_fuel_stable {α : Type} (S : Dag.Sys α) (D : Dag.Data α) (rank : String → Nat)
    (hrank : ∀ n node, Dag.find? D n = none → Dag.find? S n = some node →
      ∀ d ∈ node.deps, rank d < rank n) (n : String) (fuel : Nat) (hf : rank n < fuel) :
    Dag.eval S D fuel n = Dag.eval S D (rank n + 1) n :=
  mi_eval_fuel_stable S D rank hrank (rank n) n (Nat.le_refl _) fuel hf

/-! ## non-vacuity -/
namespace C08SimExamples
open GV.Lang

/-- `a_m(x) = x * 2`, `b(a_m, c) = a_m + c`, `c(grp_params) = grp_params["c"]` (parameters only);
the targets `b` and `a_m_hh` (an automatic group sum) -/
def sys : Input :=
  { rules := [
      { name := "a_m", ret := some .float,
        fn := { name := "a_m", args := ["x"], body := [.ret (.bin .mul (.name "x") (.const (.int 2)))] } },
      { name := "b", ret := some .float,
        fn := { name := "b", args := ["a_m", "c"], body := [.ret (.bin .add (.name "a_m") (.name "c"))] } },
      { name := "c", ret := some .float,
        fn := { name := "c", args := ["grp_params"],
                body := [.ret (.sub (.name "grp_params") (.const (.str "c")))] } }],
    params := [("grp", .tree (.dict [(.s "c", .num (3/2))]))],
    data := [("p_id", [.int 0, .int 1, .int 2]), ("hh_id", [.int 0, .int 0, .int 1]),
             ("x", [.flt 1, .flt (5/2), .flt 4])],
    targets := ["a_m_hh", "b"] }

def prep : Except Err Prep :=
  prepare (sys.rules.map (ruleFn true)) sys.groupSpecs sys.pidSpecs sys.data sys.targets

theorem plan_ok' : (prep >>= fun pr => plan sys.params sys.targets pr).toBool = true := by
  decide +kernel

/-- the hypotheses of all theorems above are satisfiable: `prepare` and `plan` succeed on `sys` -/
theorem hyps : ∃ pr p, prep = .ok pr ∧ plan sys.params sys.targets pr = .ok p ∧
    (pr.fns.map (·.name)).Nodup ∧ (∀ f ∈ pr.fns, f.name ∉ pr.dataCols) := by
  have h := plan_ok'
  cases hx : (prep >>= fun pr => plan sys.params sys.targets pr) with
  | error e => rw [hx] at h; cases h
  | ok p =>
    obtain ⟨pr, hpr, hp⟩ := bind_ok hx
    exact ⟨pr, p, hpr, hp, (mi_prepare_hyps hpr).1, (mi_prepare_hyps hpr).2.1⟩

/-- the planned system of `sys`: four nodes with their dependencies (`c` has none: its only
argument was partialled), executed in the order `c, a_m, a_m_hh, b` (`c` is ready at once) -/
example : (prep >>= fun pr => plan sys.params sys.targets pr).toOption.map
      (fun p => (p.sys.map fun e => (e.1, e.2.deps), p.order)) =
    some ([("a_m", ["x"]), ("b", ["a_m", "c"]), ("c", []), ("a_m_hh", ["a_m", "hh_id"])],
          ["c", "a_m", "a_m_hh", "b"]) := by decide +kernel

/-- … and the evaluation of `b` needs depth 2 < 4 + 1 -/
example : ((prep >>= fun pr => plan sys.params sys.targets pr).toOption.map fun p =>
      ((Dag.eval p.sys p.data 2 "b").toBool, (Dag.eval p.sys p.data 3 "b").toBool,
       (Dag.eval p.sys p.data 5 "b").toBool)) = some (false, true, true) := by decide +kernel

/-- a missing input column makes `plan` fail with the `ValueError` of
`_fail_if_root_nodes_are_missing` (so the second alternative of `plan_roots_are_data` is
enforced) -/
example : (match (prepare (sys.rules.map (ruleFn true)) [] [] (sys.data.take 2) ["b"] >>= fun pr =>
      plan sys.params ["b"] pr) with
    | .error .valueError => true | _ => false) = true := by decide +kernel

/-- a cycle makes `plan` fail (the check `hasCycle = false` behind `plan_acyclic` is a real check) -/
def cyc : List Rule :=
  [{ name := "c1", ret := some .float, fn := { name := "c1", args := ["c2"], body := [.ret (.name "c2")] } },
   { name := "c2", ret := some .float, fn := { name := "c2", args := ["c1"], body := [.ret (.name "c1")] } }]
example : (match (prepare (cyc.map (ruleFn true)) [] [] sys.data ["c1"] >>= fun pr => plan [] ["c1"] pr) with
    | .error .other => true | _ => false) = true := by decide +kernel

end C08SimExamples

end GV.Simulate
