import GettsimVerif.Lemmas.SimUnion
/-
Property C02 on the CONCRETE node operations of the executable model `Core/Simulate.lean` of
`compute_taxes_and_transfers`: "The results for a set of persons that is closed under household
membership and person-to-person pointers are identical whether these persons are simulated alone
or together with arbitrary other households."

Setting: a table with `nA + nB` rows; the persons of A are the first `nA` rows, the other
households (B) are the remaining `nB` rows. (Together with C01-Sim — row permutations — this covers
any position of the persons of A in the table.)

Vocabulary (defined in `Lemmas/SimUnion.lean`):
* `Col.takeRows nA c`  : the first `nA` rows of `c` (a scalar — 0-d array, numpy scalar, Python
                         number — has no rows and is left alone);
* `Col.dropRows nA c`  : the rows after the first `nA` rows;
* `Col.append a b`     : the rows of `b` stacked under those of `a` (a scalar is shared);
  `Col.Stackable nA nB a b` : `a`, `b` are the same scalar, or 1-d arrays of the same dtype with `nA`
                         resp. `nB` rows; then `(a.append b).takeRows nA = a`, `….dropRows nA = b`;
* `un_takeData nA D`, `un_dropData nA D`, `un_appendData DA DB` : the same for whole data tables;
* `un_IdsSep nA ids`   : no id of the first `nA` rows occurs among the remaining rows (the households
                         of A and B are disjoint);
* `un_PtrsClosed nA ptr pid` : a non-negative pointer of one of the first `nA` rows is a p_id of the
                         first `nA` rows, a non-negative pointer of a remaining row is a p_id of a
                         remaining row (both parts are closed under the pointer column);
* `ColOK n c` / `ColsOK n cols` (from `Lemmas/SimPerm.lean`): scalar or exactly `n` rows.

Form of the statements: the operation is evaluated on the whole table AND on the part; both
succeed; then the result for the part is the restriction of the result for the whole table.
(Errors are not compared: a failing row of B makes the joint call fail although A alone succeeds.)
For aggregations, `sum_by_p_id`, time conversions and rules with at least one argument the
stronger one-directional form holds and is stated: success on the whole table implies success on
the part. `…_ok_of_both`: success on both parts implies success on the whole table.

The lemmas in `Lemmas/SimUnion.lean` are proved for an arbitrary contiguous block of rows
`[a, a+m)` (`un_…_win`), so the middle one of three stacked tables is covered as well.
-/
namespace GV.Simulate
open GV.VecDtype (R DT)
open GV.Lang (Val FunDef)
open GV.TimeConv (TUnit)

/-! ## 1. vectorized rules with a declared return type -/

/-- C02-Sim.1 A vectorized rule with a declared return type (`numpy.vectorize(f, otypes=[ty])` plus
the rounding wrapper), called on columns with `nA + nB` rows (scalars allowed) and called on the
first `nA` rows of the same columns: if both calls succeed, the second result consists of the
first `nA` rows of the first result. -/
theorem ruleOp_union {nA nB : Nat} (params : List (String × Val)) (fn : FunDef) (ty : Ty)
    (spec : Option RSpec) (free : List String) (cols : List Col) (out outA : Col)
    (hcols : ColsOK (nA + nB) cols)
    (h : ruleOp params fn (some ty) spec free cols = .ok out)
    (hA : ruleOp params fn (some ty) spec free (cols.map (Col.takeRows nA)) = .ok outA) :
    out.takeRows nA = outA := by
  rw [← un_map_permute_take hcols (Nat.le_add_right nA nB)] at hA
  rw [un_ruleOp_gather_both (un_win_valid (by omega)) hcols h hA,
    un_permute_take (ruleOp_perm_ok (σ := List.range (nA + nB)) (List.Perm.refl _) hcols h).2
      (Nat.le_add_right nA nB)]

/-- C02-Sim.1' The symmetric statement for the other households: the call on the remaining `nB`
rows returns the remaining rows of the joint result. -/
theorem ruleOp_union_snd {nA nB : Nat} (params : List (String × Val)) (fn : FunDef) (ty : Ty)
    (spec : Option RSpec) (free : List String) (cols : List Col) (out outB : Col)
    (hcols : ColsOK (nA + nB) cols)
    (h : ruleOp params fn (some ty) spec free cols = .ok out)
    (hB : ruleOp params fn (some ty) spec free (cols.map (Col.dropRows nA)) = .ok outB) :
    out.dropRows nA = outB := by
  rw [← un_map_permute_drop hcols] at hB
  rw [un_ruleOp_gather_both (un_win_valid (Nat.le_refl _)) hcols h hB,
    un_permute_drop (ruleOp_perm_ok (σ := List.range (nA + nB)) (List.Perm.refl _) hcols h).2]

/-- C02-Sim.1a The same in terms of the two separate tables: `colsA` (`nA` rows) and `colsB`
(`nB` rows) are stacked column by column (a scalar input is shared by both). If the rule succeeds on
the stacked columns, on `colsA` and on `colsB`, the joint result restricted to the rows of A is the
result for A, and restricted to the rows of B it is the result for B. -/
theorem ruleOp_union_append {nA nB : Nat} (params : List (String × Val)) (fn : FunDef) (ty : Ty)
    (spec : Option RSpec) (free : List String) (colsA colsB : List Col) (out outA outB : Col)
    (hst : List.Forall₂ (Col.Stackable nA nB) colsA colsB)
    (h : ruleOp params fn (some ty) spec free (un_appendCols colsA colsB) = .ok out)
    (hA : ruleOp params fn (some ty) spec free colsA = .ok outA)
    (hB : ruleOp params fn (some ty) spec free colsB = .ok outB) :
    out.takeRows nA = outA ∧ out.dropRows nA = outB := by
  constructor
  · exact ruleOp_union params fn ty spec free _ out outA (un_colsOK_appendCols hst) h
      (by rw [un_take_appendCols hst]; exact hA)
  · exact ruleOp_union_snd params fn ty spec free _ out outB (un_colsOK_appendCols hst) h
      (by rw [un_drop_appendCols hst]; exact hB)

/-- C02-Sim.1b For a rule with at least one argument, success on the whole table IMPLIES success on
the first `nA` rows and on the remaining rows (every row of a part is a row of the table), with the
restricted results. (For a rule WITHOUT arguments only the two-sided form `ruleOp_union` holds:
`numpy.vectorize` returns `f()` itself, but in the model a call with an empty 1-d input — `nA = 0` —
has no first result and fails, although the joint call succeeds.) -/
theorem ruleOp_union_ok {nA nB : Nat} (params : List (String × Val)) (fn : FunDef) (ty : Ty)
    (spec : Option RSpec) (free : List String) (cols : List Col) (out : Col)
    (hargs : fn.args ≠ []) (hcols : ColsOK (nA + nB) cols)
    (h : ruleOp params fn (some ty) spec free cols = .ok out) :
    ruleOp params fn (some ty) spec free (cols.map (Col.takeRows nA)) = .ok (out.takeRows nA) ∧
    ruleOp params fn (some ty) spec free (cols.map (Col.dropRows nA)) = .ok (out.dropRows nA) := by
  have hout := (ruleOp_perm_ok (σ := List.range (nA + nB)) (List.Perm.refl _) hcols h).2
  rw [← un_map_permute_take hcols (Nat.le_add_right nA nB), ← un_map_permute_drop hcols,
    ← un_permute_take hout (Nat.le_add_right nA nB), ← un_permute_drop hout]
  exact ⟨un_ruleOp_gather (un_win_valid (by omega)) hargs hcols h,
    un_ruleOp_gather (un_win_valid (Nat.le_refl _)) hargs hcols h⟩

/-- C02-Sim.1d Conversely, if the rule succeeds on the persons of A alone and on the other
households alone, it succeeds on the joint table (every row of the joint table is a row of one of
the parts, and rounding works value by value). -/
theorem ruleOp_union_ok_of_both {nA nB : Nat} (params : List (String × Val)) (fn : FunDef) (ty : Ty)
    (spec : Option RSpec) (free : List String) (cols : List Col) (outA outB : Col)
    (hcols : ColsOK (nA + nB) cols)
    (hA : ruleOp params fn (some ty) spec free (cols.map (Col.takeRows nA)) = .ok outA)
    (hB : ruleOp params fn (some ty) spec free (cols.map (Col.dropRows nA)) = .ok outB) :
    ∃ out, ruleOp params fn (some ty) spec free cols = .ok out ∧
      out.takeRows nA = outA ∧ out.dropRows nA = outB := by
  have hA' := hA
  have hB' := hB
  rw [← un_map_permute_take hcols (Nat.le_add_right nA nB)] at hA'
  rw [← un_map_permute_drop hcols] at hB'
  obtain ⟨out, h⟩ := un_ruleOp_ok_of_both hcols hA' hB'
  exact ⟨out, h, ruleOp_union params fn ty spec free cols out outA hcols h hA,
    ruleOp_union_snd params fn ty spec free cols out outB hcols h hB⟩

/-! ### non-vacuity, and why the declaration is needed -/

/-- `def f(x, y) -> float: return x + y` -/
private def fAdd : FunDef := { name := "f", args := ["x", "y"], body := [.ret (.bin .add (.name "x") (.name "y"))] }
-- A: rows 0, 1 (one household); B: rows 2, 3 (another household)
private def colX : Col := { dt := .float, vals := [.f 1, .f (5/2), .f 3, .f 7] }
private def colY : Col := { dt := .int, vals := [.i 10, .i 20, .i 30, .i 40] }
/-- a numpy scalar among the inputs -/
private def colS : Col := { dt := .float, vals := [.f 100], shape := .npScalar }

example : ColsOK (2 + 2) [colX, colY, colS] := by decide
example : [colX, colS].map (Col.takeRows 2) = [{ dt := .float, vals := [.f 1, .f (5/2)] }, colS] ∧
    [colX, colS].map (Col.dropRows 2) = [{ dt := .float, vals := [.f 3, .f 7] }, colS] := by
  decide +kernel
example : ruleOp [] fAdd (some .float) none ["x", "y"] [colX, colY] =
      .ok { dt := .float, vals := [.f 11, .f (45/2), .f 33, .f 47] } ∧
    ruleOp [] fAdd (some .float) none ["x", "y"] ([colX, colY].map (Col.takeRows 2)) =
      .ok { dt := .float, vals := [.f 11, .f (45/2)] } ∧
    ruleOp [] fAdd (some .float) none ["x", "y"] ([colX, colY].map (Col.dropRows 2)) =
      .ok { dt := .float, vals := [.f 33, .f 47] } := by decide +kernel
/-- instance of the theorem (all hypotheses hold together) -/
example : Col.takeRows 2 { dt := .float, vals := [.f 11, .f (45/2), .f 33, .f 47] } =
    { dt := .float, vals := [.f 11, .f (45/2)] } :=
  ruleOp_union (nA := 2) (nB := 2) [] fAdd .float none ["x", "y"] [colX, colY] _ _ (by decide)
    (by decide +kernel) (by decide +kernel)
/-- the stacked form: a shared scalar and a stacked array -/
example : List.Forall₂ (Col.Stackable 2 2)
      [{ dt := .float, vals := [.f 1, .f (5/2)] }, colS] [{ dt := .float, vals := [.f 3, .f 7] }, colS] ∧
    un_appendCols [{ dt := .float, vals := [.f 1, .f (5/2)] }, colS]
      [{ dt := .float, vals := [.f 3, .f 7] }, colS] = [colX, colS] :=
  ⟨.cons (by decide) (.cons (by decide) .nil), by decide +kernel⟩

/-- `def g(x): return 0.5 if x > 1.5 else 0` WITHOUT return annotation -/
private def gMixed : FunDef :=
  { name := "g", args := ["x"],
    body := [.ret (.ifexp (.cmp (.name "x") [(.gt, .const (.flt (3/2)))]) (.const (.flt (1/2))) (.const (.int 0)))] }

/-- C02-Sim.1c WHY `ret = some ty` is required: without a declared return type `numpy.vectorize`
probes the dtype on the FIRST row of the table it is called with. For `g` on `x = [1, 5/2, 3, 7]`
the first result is the int `0`, the joint column is int64 `[0, 0, 0, 0]` (the `0.5`s are
truncated). The other households alone (`x = [3, 7]`) start with `0.5`: float64 `[0.5, 0.5]` — not
the remaining rows `[0, 0]` (int64) of the joint result. So the statement of `ruleOp_union_snd` is
FALSE for `ret = none`: the results of B depend on whether A is in front of them. -/
theorem ruleOp_undeclared_not_union :
    ruleOp [] gMixed none none ["x"] [colX] = .ok { dt := .int, vals := [.i 0, .i 0, .i 0, .i 0] } ∧
    ruleOp [] gMixed none none ["x"] ([colX].map (Col.dropRows 2)) =
      .ok { dt := .float, vals := [.f (1/2), .f (1/2)] } ∧
    Col.dropRows 2 { dt := .int, vals := [.i 0, .i 0, .i 0, .i 0] } ≠
      { dt := .float, vals := [.f (1/2), .f (1/2)] } := by
  decide +kernel

/-! ## 2. time conversions -/

/-- C02-Sim.2 The time-conversion wrappers (`m_to_y`, `y_to_m`, …) are element-wise: converting the
first `nA` rows gives the first `nA` rows of the converted column, the same for the remaining rows —
success or not (the only failure is a wrong number of arguments). -/
theorem timeConvOp_union {nA nB : Nat} (u v : TUnit) (cols : List Col)
    (hcols : ColsOK (nA + nB) cols) :
    timeConvOp u v (cols.map (Col.takeRows nA)) = (timeConvOp u v cols).map (Col.takeRows nA) ∧
    timeConvOp u v (cols.map (Col.dropRows nA)) = (timeConvOp u v cols).map (Col.dropRows nA) := by
  rw [← un_map_permute_take hcols (Nat.le_add_right nA nB), ← un_map_permute_drop hcols,
    timeConvOp_perm_list (un_win_valid (by omega)) u v cols hcols,
    timeConvOp_perm_list (un_win_valid (Nat.le_refl _)) u v cols hcols]
  cases h : timeConvOp u v cols with
  | error e => exact ⟨rfl, rfl⟩
  | ok out =>
    have hout := timeConvOp_colOK hcols h
    simp only [Except.map]
    rw [un_permute_take hout (Nat.le_add_right nA nB), un_permute_drop hout]
    exact ⟨rfl, rfl⟩

example : ColsOK (2 + 2) [colY] ∧
    timeConvOp .m .y [colY] = .ok { dt := .int, vals := [.i 120, .i 240, .i 360, .i 480] } ∧
    timeConvOp .m .y ([colY].map (Col.takeRows 2)) = .ok { dt := .int, vals := [.i 120, .i 240] } ∧
    timeConvOp .y .m ([colX].map (Col.dropRows 2)) = .ok { dt := .float, vals := [.f (1/4), .f (7/12)] } := by
  decide +kernel

/-! ## 3. grouped aggregations -/

/-- C02-Sim.3 `grouped_sum/mean/max/min/any/all(col, group_id)` on a table with `nA + nB` rows in
which no group id of the first `nA` rows occurs among the remaining rows (`un_IdsSep`: the
households of A and of the others are disjoint): if the aggregation succeeds on the whole table, it
succeeds on the first `nA` rows alone and on the remaining rows alone, and returns there exactly
the corresponding rows of the joint result. The source column may be a 0-d array (which
`grouped_sum` broadcasts); Boolean sources of `sum` (result int64) are included. -/
theorem groupAggOp_union {nA nB : Nat} (a : Aggr) (col gid out : Col)
    (hcols : ColsOK (nA + nB) [col, gid]) (hsep : un_IdsSep nA gid.ints)
    (h : groupAggOp a [col, gid] = .ok out) :
    groupAggOp a [col.takeRows nA, gid.takeRows nA] = .ok (out.takeRows nA) ∧
    groupAggOp a [col.dropRows nA, gid.dropRows nA] = .ok (out.dropRows nA) := by
  have hc := hcols col (by simp)
  have hg := hcols gid (by simp)
  have hA := un_groupAggOp_two_win (a := 0) (m := nA) (by omega) a hcols (fun _ => un_Sep_take hsep) h
  have hB := un_groupAggOp_two_win (a := nA) (m := nB) (Nat.le_refl _) a hcols
    (fun hs => un_Sep_drop (Nat.le_of_eq (un_ints_length hg hs)) hsep) h
  rw [← un_permute_take hc (Nat.le_add_right nA nB), ← un_permute_take hg (Nat.le_add_right nA nB),
    ← un_permute_take hA.2 (Nat.le_add_right nA nB), ← un_permute_drop hc, ← un_permute_drop hg,
    ← un_permute_drop hA.2]
  exact ⟨hA.1, hB.1⟩

/-- C02-Sim.3a `grouped_count(group_id)`: the same for the one-argument form. -/
theorem groupAggOp_count_union {nA nB : Nat} (a : Aggr) (gid out : Col)
    (hcols : ColsOK (nA + nB) [gid]) (hsep : un_IdsSep nA gid.ints)
    (h : groupAggOp a [gid] = .ok out) :
    groupAggOp a [gid.takeRows nA] = .ok (out.takeRows nA) ∧
    groupAggOp a [gid.dropRows nA] = .ok (out.dropRows nA) := by
  have hg := hcols gid (by simp)
  have hA := un_groupAggOp_one_win (a := 0) (m := nA) (by omega) a hcols (fun _ => un_Sep_take hsep) h
  have hB := un_groupAggOp_one_win (a := nA) (m := nB) (Nat.le_refl _) a hcols
    (fun hs => un_Sep_drop (Nat.le_of_eq (un_ints_length hg hs)) hsep) h
  rw [← un_permute_take hg (Nat.le_add_right nA nB), ← un_permute_take hA.2 (Nat.le_add_right nA nB),
    ← un_permute_drop hg, ← un_permute_drop hA.2]
  exact ⟨hA.1, hB.1⟩

/-- C02-Sim.3b The form "simulated alone or together": whatever the aggregation on the persons of
A alone returns is the restriction of what the aggregation on the whole table returns. -/
theorem groupAggOp_union_both {nA nB : Nat} (a : Aggr) (col gid out outA : Col)
    (hcols : ColsOK (nA + nB) [col, gid]) (hsep : un_IdsSep nA gid.ints)
    (h : groupAggOp a [col, gid] = .ok out)
    (hA : groupAggOp a [col.takeRows nA, gid.takeRows nA] = .ok outA) :
    out.takeRows nA = outA := by
  rw [(groupAggOp_union a col gid out hcols hsep h).1] at hA
  cases hA
  rfl

/-- C02-Sim.3d Conversely, an aggregation that succeeds on the persons of A alone and on the
other households alone succeeds on the joint table (no disjointness needed for this direction: the
only run-time failure is a negative group id); with disjoint ids the results are the parts of the
joint result. -/
theorem groupAggOp_union_ok_of_both {nA nB : Nat} (a : Aggr) (cols : List Col) (outA outB : Col)
    (hcols : ColsOK (nA + nB) cols)
    (hA : groupAggOp a (cols.map (Col.takeRows nA)) = .ok outA)
    (hB : groupAggOp a (cols.map (Col.dropRows nA)) = .ok outB) :
    ∃ out, groupAggOp a cols = .ok out := by
  rw [← un_map_permute_take hcols (Nat.le_add_right nA nB)] at hA
  rw [← un_map_permute_drop hcols] at hB
  exact un_groupAggOp_ok_of_both_list a hcols hA hB

-- A = household 5 (rows 0, 1), B = household 2 (rows 2, 3)
private def colG : Col := { dt := .int, vals := [.i 5, .i 5, .i 2, .i 2] }
private def colB : Col := { dt := .bool, vals := [.b false, .b true, .b true, .b true] }

example : ColsOK (2 + 2) [colX, colG] ∧ un_IdsSep 2 colG.ints := by decide +kernel
example : groupAggOp .sum [colX, colG] = .ok { dt := .float, vals := [.f (7/2), .f (7/2), .f 10, .f 10] } ∧
    groupAggOp .sum [colX.takeRows 2, colG.takeRows 2] = .ok { dt := .float, vals := [.f (7/2), .f (7/2)] } ∧
    groupAggOp .sum [colX.dropRows 2, colG.dropRows 2] = .ok { dt := .float, vals := [.f 10, .f 10] } := by
  decide +kernel
example : groupAggOp .mean [colX, colG] = .ok { dt := .float, vals := [.f (7/4), .f (7/4), .f 5, .f 5] } ∧
    groupAggOp .mean [colX.takeRows 2, colG.takeRows 2] = .ok { dt := .float, vals := [.f (7/4), .f (7/4)] } := by
  decide +kernel
example : groupAggOp .max [colY, colG] = .ok { dt := .int, vals := [.i 20, .i 20, .i 40, .i 40] } ∧
    groupAggOp .min [colY.dropRows 2, colG.dropRows 2] = .ok { dt := .int, vals := [.i 30, .i 30] } := by
  decide +kernel
example : groupAggOp .all [colB, colG] = .ok { dt := .bool, vals := [.b false, .b false, .b true, .b true] } ∧
    groupAggOp .any [colB.takeRows 2, colG.takeRows 2] = .ok { dt := .bool, vals := [.b true, .b true] } ∧
    groupAggOp .sum [colB, colG] = .ok { dt := .int, vals := [.i 1, .i 1, .i 2, .i 2] } := by
  decide +kernel
example : groupAggOp .count [colG] = .ok { dt := .float, vals := [.f 2, .f 2, .f 2, .f 2] } ∧
    groupAggOp .count [colG.takeRows 2] = .ok { dt := .float, vals := [.f 2, .f 2] } := by
  decide +kernel
/-- a 0-d source column is broadcast by `grouped_sum` (covered by the theorem) -/
example : ColsOK (2 + 2) [{ colS with shape := .arr0 }, colG] ∧
    groupAggOp .sum [{ colS with shape := .arr0 }, colG] =
      .ok { dt := .float, vals := [.f 200, .f 200, .f 200, .f 200] } := by decide +kernel
/-- instance of the theorem -/
example : groupAggOp .sum [colX.takeRows 2, colG.takeRows 2] =
    .ok (Col.takeRows 2 { dt := .float, vals := [.f (7/2), .f (7/2), .f 10, .f 10] }) :=
  (groupAggOp_union (nA := 2) (nB := 2) .sum colX colG _ (by decide) (by decide +kernel)
    (by decide +kernel)).1

private def colGshared : Col := { dt := .int, vals := [.i 5, .i 5, .i 5, .i 2] }

/-- C02-Sim.3c WHY the group ids must be disjoint: if a row of the other households carries the
household id 5 of A, the sum for A on the joint table (`6`) contains that row, the sum for A alone
(`7/2`) does not. -/
theorem groupAggOp_union_needs_disjoint :
    ¬ un_IdsSep 2 colGshared.ints ∧
    groupAggOp .sum [colX, colGshared] =
      .ok { dt := .float, vals := [.f (13/2), .f (13/2), .f (13/2), .f 7] } ∧
    groupAggOp .sum [colX.takeRows 2, colGshared.takeRows 2] =
      .ok { dt := .float, vals := [.f (7/2), .f (7/2)] } ∧
    Col.takeRows 2 { dt := .float, vals := [.f (13/2), .f (13/2), .f (13/2), .f 7] } ≠
      { dt := .float, vals := [.f (7/2), .f (7/2)] } := by
  decide +kernel

/-! ## 4. `sum_by_p_id` -/

/-- C02-Sim.4 `sum_by_p_id(col, pointer, p_id)` on a table with `nA + nB` rows: if `p_id` has no
duplicates (so the p_ids of A and of the others are disjoint and duplicate free) and both parts are
closed under the pointer column (`un_PtrsClosed`: a pointer of a row of A is negative or the p_id
of a row of A; a pointer of another row is negative or the p_id of another row), then success on
the whole table implies success on each part alone, with exactly the corresponding rows of the
joint result. The source column may be a 0-d array. -/
theorem pidSumOp_union {nA nB : Nat} (col ptr pid out : Col)
    (hcols : ColsOK (nA + nB) [col, ptr, pid]) (hnd : pid.ints.Nodup)
    (hcl : un_PtrsClosed nA ptr.ints pid.ints) (h : pidSumOp [col, ptr, pid] = .ok out) :
    pidSumOp [col.takeRows nA, ptr.takeRows nA, pid.takeRows nA] = .ok (out.takeRows nA) ∧
    pidSumOp [col.dropRows nA, ptr.dropRows nA, pid.dropRows nA] = .ok (out.dropRows nA) := by
  have hc := hcols col (by simp)
  have hp := hcols ptr (by simp)
  have hq := hcols pid (by simp)
  have hA := un_pidSumOp_three_win (a := 0) (m := nA) (by omega) hcols hnd
    (fun _ _ => un_PtrClosed_take hnd hcl) h
  have hB := un_pidSumOp_three_win (a := nA) (m := nB) (Nat.le_refl _) hcols hnd
    (fun hs1 hs2 => un_PtrClosed_drop (Nat.le_of_eq (un_ints_length hp hs1))
      (Nat.le_of_eq (un_ints_length hq hs2)) hnd hcl) h
  rw [← un_permute_take hc (Nat.le_add_right nA nB), ← un_permute_take hp (Nat.le_add_right nA nB),
    ← un_permute_take hq (Nat.le_add_right nA nB), ← un_permute_take hA.2 (Nat.le_add_right nA nB),
    ← un_permute_drop hc, ← un_permute_drop hp, ← un_permute_drop hq, ← un_permute_drop hA.2]
  exact ⟨hA.1, hB.1⟩

/-- C02-Sim.4a The form "simulated alone or together". -/
theorem pidSumOp_union_both {nA nB : Nat} (col ptr pid out outA : Col)
    (hcols : ColsOK (nA + nB) [col, ptr, pid]) (hnd : pid.ints.Nodup)
    (hcl : un_PtrsClosed nA ptr.ints pid.ints) (h : pidSumOp [col, ptr, pid] = .ok out)
    (hA : pidSumOp [col.takeRows nA, ptr.takeRows nA, pid.takeRows nA] = .ok outA) :
    out.takeRows nA = outA := by
  rw [(pidSumOp_union col ptr pid out hcols hnd hcl h).1] at hA
  cases hA
  rfl

/-- C02-Sim.4c Conversely, with a duplicate-free joint `p_id`, `sum_by_p_id` that succeeds on the
persons of A alone and on the other households alone succeeds on the joint table. -/
theorem pidSumOp_union_ok_of_both {nA nB : Nat} (col ptr pid outA outB : Col)
    (hcols : ColsOK (nA + nB) [col, ptr, pid]) (hnd : pid.ints.Nodup)
    (hA : pidSumOp [col.takeRows nA, ptr.takeRows nA, pid.takeRows nA] = .ok outA)
    (hB : pidSumOp [col.dropRows nA, ptr.dropRows nA, pid.dropRows nA] = .ok outB) :
    ∃ out, pidSumOp [col, ptr, pid] = .ok out := by
  have hc := hcols col (by simp)
  have hp := hcols ptr (by simp)
  have hq := hcols pid (by simp)
  rw [← un_permute_take hc (Nat.le_add_right nA nB), ← un_permute_take hp (Nat.le_add_right nA nB),
    ← un_permute_take hq (Nat.le_add_right nA nB)] at hA
  rw [← un_permute_drop hc, ← un_permute_drop hp, ← un_permute_drop hq] at hB
  exact un_pidSumOp_three_ok_of_both hcols hnd hA hB

-- the p_ids of B (3 and 20) are smaller and larger than those of A (10, 11)
private def colPid : Col := { dt := .int, vals := [.i 10, .i 11, .i 3, .i 20] }
private def colPtr : Col := { dt := .int, vals := [.i 11, .i (-1), .i 20, .i 20] }

example : ColsOK (2 + 2) [colX, colPtr, colPid] ∧ colPid.ints.Nodup ∧
    un_PtrsClosed 2 colPtr.ints colPid.ints := by decide +kernel
example : pidSumOp [colX, colPtr, colPid] = .ok { dt := .float, vals := [.f 0, .f 1, .f 0, .f 10] } ∧
    pidSumOp [colX.takeRows 2, colPtr.takeRows 2, colPid.takeRows 2] =
      .ok { dt := .float, vals := [.f 0, .f 1] } ∧
    pidSumOp [colX.dropRows 2, colPtr.dropRows 2, colPid.dropRows 2] =
      .ok { dt := .float, vals := [.f 0, .f 10] } := by decide +kernel
/-- instance of the theorem -/
example : pidSumOp [colX.takeRows 2, colPtr.takeRows 2, colPid.takeRows 2] =
    .ok (Col.takeRows 2 { dt := .float, vals := [.f 0, .f 1, .f 0, .f 10] }) :=
  (pidSumOp_union (nA := 2) (nB := 2) colX colPtr colPid _ (by decide) (by decide +kernel)
    (by decide +kernel) (by decide +kernel)).1

private def colPtrOpen : Col := { dt := .int, vals := [.i 11, .i (-1), .i 11, .i 20] }

/-- C02-Sim.4b WHY the parts must be closed under the pointer column: if a person of another
household points to person 11 of A (e.g. a child-benefit recipient outside the household), person
11 receives `1 + 3` on the joint table but `1` when A is simulated alone. -/
theorem pidSumOp_union_needs_closed :
    ¬ un_PtrsClosed 2 colPtrOpen.ints colPid.ints ∧
    pidSumOp [colX, colPtrOpen, colPid] = .ok { dt := .float, vals := [.f 0, .f 4, .f 0, .f 7] } ∧
    pidSumOp [colX.takeRows 2, colPtrOpen.takeRows 2, colPid.takeRows 2] =
      .ok { dt := .float, vals := [.f 0, .f 1] } := by
  decide +kernel

/-! ## 5. lifting through the evaluation of the DAG -/

/-- C02-Sim.5 (general form) Let `S` be a system all of whose nodes satisfy the SEPARATION
hypothesis `un_UnionNode`: they are built by `nodeOf` from vectorized rules with declared return
type, time conversions, grouped aggregations and `sum_by_p_id` (no id constructors of
`groupings.py`, no rule without return annotation); whatever column the group-id argument of a
grouped aggregation evaluates to has disjoint ids on the first `nA` and the remaining rows; the
`p_id` argument of every `sum_by_p_id` node evaluates to a duplicate-free column and its pointer
argument to a column under which both parts are closed. Let all data columns have `nA + nB` rows
(or be scalars). If a target is computed on the whole data `D` and on the first `nA` rows of `D`
(same fuel), the second value consists of the first `nA` rows of the first one. -/
theorem sys_eval_union {nA nB : Nat} (params : List (String × Val)) (specs : List (String × RSpec))
    (S : Dag.Sys Col) (D : Dag.Data Col)
    (hS : ∀ x node, Dag.find? S x = some node → un_UnionNode params specs S D nA node)
    (hD : ColsOK (nA + nB) (D.map (·.2)))
    (fuel : Nat) (t : String) (v vA : Col) (h : Dag.eval S D fuel t = .ok v)
    (hA : Dag.eval S (un_takeData nA D) fuel t = .ok vA) : v.takeRows nA = vA :=
  (un_sys_eval_take_drop params specs S D hS hD fuel t v h).1 vA hA

/-- C02-Sim.5' … and the same for the other households (the remaining rows). -/
theorem sys_eval_union_snd {nA nB : Nat} (params : List (String × Val))
    (specs : List (String × RSpec)) (S : Dag.Sys Col) (D : Dag.Data Col)
    (hS : ∀ x node, Dag.find? S x = some node → un_UnionNode params specs S D nA node)
    (hD : ColsOK (nA + nB) (D.map (·.2)))
    (fuel : Nat) (t : String) (v vB : Col) (h : Dag.eval S D fuel t = .ok v)
    (hB : Dag.eval S (un_dropData nA D) fuel t = .ok vB) : v.dropRows nA = vB :=
  (un_sys_eval_take_drop params specs S D hS hD fuel t v h).2 vB hB

/-- C02-Sim.5a The situation of the real code, with the separation hypothesis phrased on DATA
columns only (`un_UnionFns`): for the functions `fns` (system `sysOf params specs fns`, as in
`plan`), every group id used by a grouped aggregation is a data column (`hh_id`, …) with disjoint
values on A and on the others; the `p_id` argument of every `sum_by_p_id` is a duplicate-free data
column and the pointer argument a data column under which both parts are closed. Computed group ids
(`fg_id`, `bg_id`, … from `groupings.py`) are NOT covered here; for them `Props/C12Cor.lean` has the
union theorems of the id constructors, and `sys_eval_union` applies as soon as the computed id
column is known to be separated. -/
theorem sys_eval_union_data_ids {nA nB : Nat} (params : List (String × Val))
    (specs : List (String × RSpec)) (fns : List Fn) (D : Dag.Data Col)
    (hfns : un_UnionFns params D nA fns) (hD : ColsOK (nA + nB) (D.map (·.2)))
    (fuel : Nat) (t : String) (v : Col)
    (h : Dag.eval (sysOf params specs fns) D fuel t = .ok v) :
    (∀ vA, Dag.eval (sysOf params specs fns) (un_takeData nA D) fuel t = .ok vA → v.takeRows nA = vA) ∧
    (∀ vB, Dag.eval (sysOf params specs fns) (un_dropData nA D) fuel t = .ok vB → v.dropRows nA = vB) :=
  un_sys_eval_take_drop params specs _ D
    (fun x node hx => (un_subsys_unionNodeData params specs fns D nA _ (fun _ hp => hp) hfns
      x node hx).node _) hD fuel t v h

/-- C02-Sim.5b The form in which `exec` evaluates: the system is first pruned to the ancestors of
the targets (`dags.create_dag`, which only looks at the NAMES of the data columns, so the pruned
system is the same for the whole table and for the part). -/
theorem pruned_eval_union {nA nB : Nat} (params : List (String × Val))
    (specs : List (String × RSpec)) (fns : List Fn) (D : Dag.Data Col)
    (hfns : un_UnionFns params D nA fns) (hD : ColsOK (nA + nB) (D.map (·.2)))
    (pfuel : Nat) (targets : List String) (fuel : Nat) (t : String) (v vA : Col)
    (h : Dag.eval (Dag.prune (sysOf params specs fns) D pfuel targets) D fuel t = .ok v)
    (hA : Dag.eval (Dag.prune (sysOf params specs fns) (un_takeData nA D) pfuel targets)
      (un_takeData nA D) fuel t = .ok vA) : v.takeRows nA = vA := by
  rw [← un_permData_take hD (Nat.le_add_right nA nB), prune_permData,
    un_permData_take hD (Nat.le_add_right nA nB)] at hA
  exact (un_sys_eval_take_drop params specs _ D
    (fun x node hx => (un_subsys_unionNodeData params specs fns D nA _
      (prune_sub _ D pfuel targets) hfns x node hx).node _) hD fuel t v h).1 vA hA

/-- C02-Sim.5c In terms of the two separate tables: `DA` (persons of A, `nA` rows) and `DB` (the
other households, `nB` rows) have the same columns; `un_appendData DA DB` is the joint table. Under
the separation hypothesis on the joint table, a target computed on the joint table, on `DA` and on
`DB` agrees on the rows of A with the result for `DA` and on the rows of B with the result for
`DB`. -/
theorem sys_eval_union_append {nA nB : Nat} (params : List (String × Val))
    (specs : List (String × RSpec)) (fns : List Fn) (DA DB : Dag.Data Col)
    (hst : un_StackableData nA nB DA DB)
    (hfns : un_UnionFns params (un_appendData DA DB) nA fns)
    (fuel : Nat) (t : String) (v vA vB : Col)
    (h : Dag.eval (sysOf params specs fns) (un_appendData DA DB) fuel t = .ok v)
    (hA : Dag.eval (sysOf params specs fns) DA fuel t = .ok vA)
    (hB : Dag.eval (sysOf params specs fns) DB fuel t = .ok vB) :
    v.takeRows nA = vA ∧ v.dropRows nA = vB := by
  have := sys_eval_union_data_ids params specs fns _ hfns (un_colsOK_appendData hst) fuel t v h
  rw [un_takeData_append hst, un_dropData_append hst] at this
  exact ⟨this.1 vA hA, this.2 vB hB⟩

/-- C02-Sim.5d Conversely: under the separation hypothesis, a target that is computed on the
persons of A alone and on the other households alone is computed on the joint table, and the joint
result consists of the two separate results. So, under separation, the joint simulation is
exactly the two separate simulations stacked. -/
theorem sys_eval_union_of_parts {nA nB : Nat} (params : List (String × Val))
    (specs : List (String × RSpec)) (S : Dag.Sys Col) (D : Dag.Data Col)
    (hS : ∀ x node, Dag.find? S x = some node → un_UnionNode params specs S D nA node)
    (hD : ColsOK (nA + nB) (D.map (·.2)))
    (fuel : Nat) (t : String) (vA vB : Col)
    (hA : Dag.eval S (un_takeData nA D) fuel t = .ok vA)
    (hB : Dag.eval S (un_dropData nA D) fuel t = .ok vB) :
    ∃ v, Dag.eval S D fuel t = .ok v ∧ v.takeRows nA = vA ∧ v.dropRows nA = vB := by
  obtain ⟨v, h⟩ := un_sys_eval_ok_of_both params specs S D hS hD fuel t vA vB hA hB
  have := un_sys_eval_take_drop params specs S D hS hD fuel t v h
  exact ⟨v, h, this.1 vA hA, this.2 vB hB⟩

/-! ### non-vacuity: a system with all four kinds of nodes -/

/-- `def net(inc, tax) -> float: return inc - tax` -/
private def fNet : FunDef :=
  { name := "net", args := ["inc", "tax"], body := [.ret (.bin .sub (.name "inc") (.name "tax"))] }
private def fns0 : List Fn :=
  [ { name := "net_m", args := ["inc", "tax"], ann := some .float, kind := .rule fNet (some .float) none },
    { name := "net_m_hh", args := ["net_m", "hh_id"], ann := some .float,
      kind := .groupAgg .sum (some "net_m") "hh_id" },
    { name := "net_y_hh", args := ["net_m_hh"], ann := none, kind := .timeConv "net_m_hh" .m .y },
    { name := "recv_m", args := ["net_m", "p_id_recv", "p_id"], ann := some .float,
      kind := .pidSum "net_m" "p_id_recv" },
    { name := "total", args := ["net_y_hh", "recv_m"], ann := some .float, kind := .rule fAdd' (some .float) none } ]
where fAdd' : FunDef :=
  { name := "total", args := ["net_y_hh", "recv_m"],
    body := [.ret (.bin .add (.name "net_y_hh") (.name "recv_m"))] }
/-- the persons of A: household 5, p_ids 10 and 11 -/
private def DA0 : Dag.Data Col :=
  [("inc", { dt := .float, vals := [.f 100, .f 40] }), ("tax", { dt := .float, vals := [.f 10, .f 4] }),
   ("hh_id", { dt := .int, vals := [.i 5, .i 5] }), ("p_id", { dt := .int, vals := [.i 10, .i 11] }),
   ("p_id_recv", { dt := .int, vals := [.i 11, .i (-1)] })]
/-- the others: household 2, p_ids 3 and 20 -/
private def DB0 : Dag.Data Col :=
  [("inc", { dt := .float, vals := [.f 60, .f 20] }), ("tax", { dt := .float, vals := [.f 6, .f 0] }),
   ("hh_id", { dt := .int, vals := [.i 2, .i 2] }), ("p_id", { dt := .int, vals := [.i 3, .i 20] }),
   ("p_id_recv", { dt := .int, vals := [.i 20, .i 20] })]
private def D0 : Dag.Data Col :=
  [("inc", { dt := .float, vals := [.f 100, .f 40, .f 60, .f 20] }),
   ("tax", { dt := .float, vals := [.f 10, .f 4, .f 6, .f 0] }),
   ("hh_id", colG), ("p_id", colPid), ("p_id_recv", colPtr)]

example : un_appendData DA0 DB0 = D0 ∧ un_takeData 2 D0 = DA0 ∧ un_dropData 2 D0 = DB0 := by
  decide +kernel
private theorem D0_stackable : un_StackableData 2 2 DA0 DB0 :=
  .cons (by decide) (.cons (by decide) (.cons (by decide) (.cons (by decide) (.cons (by decide) .nil))))
example : ColsOK (2 + 2) (D0.map (·.2)) := by decide
example : Dag.eval (sysOf [] [] fns0) D0 5 "total" =
      .ok { dt := .float, vals := [.f 1512, .f 1602, .f 888, .f 962] } ∧
    Dag.eval (sysOf [] [] fns0) DA0 5 "total" = .ok { dt := .float, vals := [.f 1512, .f 1602] } ∧
    Dag.eval (sysOf [] [] fns0) DB0 5 "total" = .ok { dt := .float, vals := [.f 888, .f 962] } := by
  decide +kernel
private theorem fns0_sep : un_UnionFns [] D0 2 fns0 := by
  intro f hf
  simp only [fns0, List.mem_cons, List.not_mem_nil, or_false] at hf
  rcases hf with rfl | rfl | rfl | rfl | rfl
  · exact ⟨rfl, fun h => (by cases h), fun h => (by cases h), fun h => (by cases h)⟩
  · refine ⟨rfl, fun _ d hd => ?_, fun h => (by cases h), fun h => (by cases h)⟩
    cases hd
    exact ⟨colG, rfl, by decide +kernel⟩
  · exact ⟨rfl, fun h => (by cases h), fun h => (by cases h), fun h => (by cases h)⟩
  · refine ⟨rfl, fun h => (by cases h), fun _ d hd => ?_, fun _ d1 d2 hd1 hd2 => ?_⟩
    · cases hd
      exact ⟨colPid, rfl, by decide +kernel⟩
    · cases hd1
      cases hd2
      exact ⟨colPtr, colPid, rfl, rfl, by decide +kernel⟩
  · exact ⟨rfl, fun h => (by cases h), fun h => (by cases h), fun h => (by cases h)⟩
/-- all hypotheses of `sys_eval_union_data_ids` hold together -/
example : Col.takeRows 2 { dt := .float, vals := [.f 1512, .f 1602, .f 888, .f 962] } =
    { dt := .float, vals := [.f 1512, .f 1602] } :=
  (sys_eval_union_data_ids (nA := 2) (nB := 2) [] [] fns0 D0 fns0_sep (by decide) 5 "total" _
    (by decide +kernel)).1 _ (by decide +kernel)
/-- … and of `sys_eval_union_of_parts` (via the data form of the separation hypothesis) -/
example : ∃ v, Dag.eval (sysOf [] [] fns0) D0 5 "total" = .ok v ∧
    v.takeRows 2 = { dt := .float, vals := [.f 1512, .f 1602] } ∧
    v.dropRows 2 = { dt := .float, vals := [.f 888, .f 962] } :=
  sys_eval_union_of_parts (nA := 2) (nB := 2) [] [] _ D0
    (fun x node hx => (un_subsys_unionNodeData [] [] fns0 D0 2 _ (fun _ hp => hp) fns0_sep
      x node hx).node _) (by decide) 5 "total" _ _ (by decide +kernel) (by decide +kernel)
/-- … and of `sys_eval_union_append` -/
example : Col.takeRows 2 { dt := .float, vals := [.f 1512, .f 1602, .f 888, .f 962] } =
      { dt := .float, vals := [.f 1512, .f 1602] } ∧
    Col.dropRows 2 { dt := .float, vals := [.f 1512, .f 1602, .f 888, .f 962] } =
      { dt := .float, vals := [.f 888, .f 962] } :=
  sys_eval_union_append (nA := 2) (nB := 2) [] [] fns0 DA0 DB0 D0_stackable
    (by rw [show un_appendData DA0 DB0 = D0 by decide +kernel]; exact fns0_sep) 5 "total" _ _ _
    (by decide +kernel) (by decide +kernel) (by decide +kernel)

end GV.Simulate
