import GettsimVerif.Core.VecDtype
/-
Property C03: the dtype of a rule's column follows the declared return type, not the data.

`vecDeclared t` models `numpy.vectorize(f, otypes=[t])` (the repaired `_vectorize_func`),
`vecInferred` models `numpy.vectorize(f)` (the original code / rules without annotation).
-/
namespace GV.VecDtype

/-! ## 1. declared dtype -/

/-- C03.1 With a declared return type the column dtype is that type, whatever the rows are. -/
theorem declared_dtype_indep_of_data (t : DT) (rs : List R) : (vecDeclared t rs).1 = t := rfl

/-- C03.1' Two data sets give the same dtype (including the empty one). -/
theorem declared_dtype_same (t : DT) (rs rs' : List R) :
    (vecDeclared t rs).1 = (vecDeclared t rs').1 := rfl

/-- C03.1'' `vectorize` with a declaration never fails and has the declared dtype. -/
theorem vectorize_declared (t : DT) (rs : List R) :
    ∃ vs, vectorize (some t) rs = some (t, vs) ∧ vs.length = rs.length :=
  ⟨rs.map (cast t), rfl, List.length_map _⟩

/-- C03.2 Row `k` of the column is the cast of the rule's result for row `k` (and nothing else:
no dependence on other rows). -/
theorem declared_value_spec (t : DT) (rs : List R) (k : Nat) :
    (vecDeclared t rs).2[k]? = (rs[k]?).map (cast t) := by
  simp only [vecDeclared, List.getElem?_map]

/-- C03.2' Indexed form. -/
theorem declared_value_spec' (t : DT) (rs : List R) (k : Nat) (h : k < rs.length) :
    (vecDeclared t rs).2[k]'(by simp only [vecDeclared, List.length_map]; exact h)
      = cast t rs[k] := by
  simp only [vecDeclared, List.getElem_map]

/-- C03.2'' The number of rows is preserved. -/
theorem declared_length (t : DT) (rs : List R) : (vecDeclared t rs).2.length = rs.length := by
  simp only [vecDeclared, List.length_map]

/-- C03.3 Every element of the output has the declared dtype. -/
theorem dtypeOf_cast (t : DT) (r : R) : dtypeOf (cast t r) = t := by
  cases t <;> cases r <;> rfl

/-- C03.3' ... for all rows of the column. -/
theorem declared_all_typed (t : DT) (rs : List R) :
    ∀ v ∈ (vecDeclared t rs).2, dtypeOf v = t := by
  intro v hv
  simp only [vecDeclared, List.mem_map] at hv
  obtain ⟨r, _, rfl⟩ := hv
  exact dtypeOf_cast t r

/-- C03.4 A result that already has the declared type is not changed. -/
theorem cast_id_when_typed (t : DT) (r : R) (h : dtypeOf r = t) : cast t r = r := by
  subst h
  cases r <;> rfl

example : dtypeOf (.f (3/4)) = .float := rfl

/-- C03.4' The cast is idempotent. -/
theorem cast_idem (t : DT) (r : R) : cast t (cast t r) = cast t r :=
  cast_id_when_typed t _ (dtypeOf_cast t r)

/-- C03.5 The cast to float keeps the numeric value of ints and bools exactly. -/
theorem cast_float_lossless (r : R) : numOf (cast .float r) = numOf r := by
  cases r <;> rfl

/-- C03.5' A result of the declared type is lossless for it. -/
theorem lossless_of_typed (t : DT) (r : R) (h : dtypeOf r = t) : losslessFor t r = true := by
  simp only [losslessFor, cast_id_when_typed t r h, beq_self_eq_true]

/-- C03.5'' Every result is lossless for float. -/
theorem lossless_float (r : R) : losslessFor .float r = true := by
  simp only [losslessFor, cast_float_lossless, beq_self_eq_true]

/-- C03.6 "No value is truncated or coerced": if every per-row result is lossless for the
declared type, then the numeric value of every output row is the numeric value of the rule's
result for that row. -/
theorem declared_lossless (t : DT) (rs : List R) (h : ∀ r ∈ rs, losslessFor t r = true) :
    (vecDeclared t rs).2.map numOf = rs.map numOf := by
  simp only [vecDeclared, List.map_map]
  apply List.map_congr_left
  intro r hr
  have := h r hr
  simp only [losslessFor, beq_iff_eq] at this
  exact this

/-- C03.6' Pointwise form of `declared_lossless`. -/
theorem declared_lossless_get (t : DT) (rs : List R) (h : ∀ r ∈ rs, losslessFor t r = true)
    (k : Nat) : ((vecDeclared t rs).2[k]?).map numOf = (rs[k]?).map numOf := by
  have := congrArg (·[k]?) (declared_lossless t rs h)
  simpa only [List.getElem?_map] using this

example : ∀ r ∈ [R.i 2, .f 3, .b true], losslessFor .int r = true := by decide +kernel
example : losslessFor .int (.f (3/2)) = false := by decide +kernel
example : losslessFor .bool (.f 300) = false := by decide +kernel

/-- C03.6'' Float columns never lose anything. -/
theorem declared_float_lossless (rs : List R) :
    (vecDeclared .float rs).2.map numOf = rs.map numOf :=
  declared_lossless .float rs fun r _ => lossless_float r

/-! ## 2. equivariance: the column is computed row by row -/

/-- C03.7a Concatenating data sets concatenates the columns. -/
theorem declared_append (t : DT) (l₁ l₂ : List R) :
    (vecDeclared t (l₁ ++ l₂)).2 = (vecDeclared t l₁).2 ++ (vecDeclared t l₂).2 := by
  simp only [vecDeclared, List.map_append]

/-- C03.7b Permuting the rows permutes the column (and keeps the dtype). -/
theorem declared_perm_equivariant (t : DT) (l l' : List R) (h : List.Perm l l') :
    (vecDeclared t l).1 = (vecDeclared t l').1 ∧
    List.Perm (vecDeclared t l).2 (vecDeclared t l').2 :=
  ⟨rfl, h.map (cast t)⟩

/-- C03.7c Reindexing form: selecting rows `idx` before or after vectorizing is the same. -/
theorem declared_reindex (t : DT) (rs : List R) (idx : List Nat) :
    (vecDeclared t (idx.filterMap (rs[·]?))).2 = idx.filterMap ((vecDeclared t rs).2[·]?) := by
  simp only [vecDeclared, List.getElem?_map]
  induction idx with
  | nil => rfl
  | cons k ks ih =>
    simp only [List.filterMap_cons]
    cases rs[k]? with
    | none => simpa using ih
    | some r => simpa using ih

example : List.Perm [R.i 0, .f (3/4), .f (5/4)] [.f (3/4), .i 0, .f (5/4)] :=
  List.Perm.swap _ _ _

/-! ## 3. inferred dtype (no declaration): depends on the data -/

/-- C03.8 Without a declaration dtype AND values depend on which row comes first: the same
three results in two orders give an int column `[0, 0, 1]` resp. a float column
`[3/4, 0, 5/4]`. -/
theorem inferred_depends_on_first_row :
    vecInferred [.i 0, .f (3/4), .f (5/4)] = some (.int, [.i 0, .i 0, .i 1]) ∧
    vecInferred [.f (3/4), .i 0, .f (5/4)] = some (.float, [.f (3/4), .f 0, .f (5/4)]) := by
  decide +kernel

/-- C03.8' In particular `vecInferred` is NOT permutation equivariant. -/
theorem inferred_not_perm_equivariant :
    ∃ l l' vs vs' t t', List.Perm l l' ∧ vecInferred l = some (t, vs) ∧
      vecInferred l' = some (t', vs') ∧ t ≠ t' ∧ ¬ List.Perm (vs.map numOf) (vs'.map numOf) := by
  refine ⟨[.i 0, .f (3/4)], [.f (3/4), .i 0], [.i 0, .i 0], [.f (3/4), .f 0], .int, .float,
    List.Perm.swap _ _ _, by decide +kernel, by decide +kernel, by decide, ?_⟩
  intro h
  have := h.mem_iff (a := (3/4 : Rat))
  revert this
  decide +kernel

/-- C03.9 A bool first row turns a later 300.0 into `True`. -/
theorem inferred_bool_truncates :
    vecInferred [.b false, .f 300] = some (.bool, [.b false, .b true]) := by
  decide +kernel

/-- C03.9' The empty data set fails without declaration (numpy `ValueError`) but not with. -/
theorem inferred_empty (t : DT) : vecInferred [] = none ∧ vecDeclared t [] = (t, []) := ⟨rfl, rfl⟩

/-- C03.10 If every result has the same type `t` (the rule is well typed), inference and
declaration agree and nothing is changed. -/
theorem inferred_eq_declared_when_homogeneous (t : DT) (rs : List R) (hne : rs ≠ [])
    (h : ∀ r ∈ rs, dtypeOf r = t) :
    vecInferred rs = some (vecDeclared t rs) ∧ vecDeclared t rs = (t, rs) := by
  have h2 : vecDeclared t rs = (t, rs) := by
    simp only [vecDeclared]
    congr 1
    conv => rhs; rw [← List.map_id rs]
    apply List.map_congr_left
    intro r hr
    exact cast_id_when_typed t r (h r hr)
  refine ⟨?_, h2⟩
  cases rs with
  | nil => exact absurd rfl hne
  | cons r rest =>
    have hr : dtypeOf r = t := h r (List.mem_cons_self)
    simp only [vecInferred, hr]
    rfl

example : ([R.f 1, .f (1/2)] ≠ []) ∧ ∀ r ∈ [R.f 1, .f (1/2)], dtypeOf r = .float := by
  decide +kernel

/-- C03.10' `vectorize`: for well typed rules on non-empty data the declaration is
irrelevant. -/
theorem vectorize_decl_irrelevant_when_homogeneous (t : DT) (rs : List R) (hne : rs ≠ [])
    (h : ∀ r ∈ rs, dtypeOf r = t) : vectorize none rs = vectorize (some t) rs := by
  simp only [vectorize, (inferred_eq_declared_when_homogeneous t rs hne h).1]

end GV.VecDtype
