import GettsimVerif.Lemmas.TypingSim
import GettsimVerif.Props.C20
import GettsimVerif.Props.C20Sim
/-
Property C20 (malformed data are rejected, conversion is lossless): the TWO Lean models of
`interface._process_and_check_data` / `_convert_data_to_correct_types` /
`gettsim_typing.convert_series_to_internal_type` AGREE on the tables both can represent.

 (A) `GV.Typing`   (`Core/Typing.lean`, theorems in `Props/C20.lean`): cells with NaN, ±inf, strings,
     datetimes; int64 and IEEE-double guards; tied to the Python code by differential runs on random
     small tables.
 (B) `GV.Simulate` (`Core/Simulate.lean`, validation stage, theorems in `Props/C20Sim.lean`):
     homogeneous int / float / bool columns of EXACT numbers; tied to the Python code by toy tax
     systems run through the real interface.

`ts_embedCol` / `ts_embedTable` (in `Lemmas/TypingSim.lean`) map the columns of (B) to columns of (A):
int column ↦ int64 cells, float column ↦ float64 cells carrying the same rational, bool ↦ bool.
Both models use the same error enumeration `GV.Err` (`ValueError` = `.valueError` in both).

SUMMARY OF THE FINDINGS
 * data checks: on RECTANGULAR tables (all columns of one length – what a pandas DataFrame always is,
   and an assumption listed in the header of model (B)) the two models return THE SAME RESULT,
   including the error class (always `ValueError`); well-typedness is not even needed.  The models
   walk through the group checks in a different order (A: column-major, B: level-major), but since
   every failure is the same `ValueError` this is invisible.
   On ragged tables (not representable as a DataFrame) model (A) is strictly stricter:
   `checkData_ragged_disagree`.
 * conversion of one column: the models agree on well-typed columns UNDER A RANGE GUARD; they
   genuinely DIFFER outside of it, because model (B) computes with exact, unbounded numbers:
     - int → float above 2^53: (A) rounds to the nearest double (what numpy does), (B) keeps the
       exact integer (`convertCol_disagree_above_2_53`); hence `Simulate.convertCol_lossless` says
       nothing about the Python code for |v| > 2^53, where the real conversion is NOT lossless;
     - float → int beyond the int64 range: (A) raises `ValueError` (what numpy/GETTSIM does), (B)
       succeeds (`convertCol_disagree_beyond_int64`).
 * conversion of the table: same statement, column by column; model (B) has no counterpart of the
   warning, but the list of names in (A)'s warning is exactly the list of columns whose dtype differs
   from the declared type in (B) (`convertData_agree_warning`).
-/
namespace GV.TypingSim
open GV.VecDtype (R DT)

/-! ## 1. the data checks -/

/-- **The two models of `_process_and_check_data` return the same result** on every rectangular
table of model (B): `Simulate.checkData` accepts iff `Typing.processAndCheck` (with the
`SUPPORTED_GROUPINGS` and `FOREIGN_KEYS` of `config.py`) accepts the embedded table, and if they
reject they report the same error class.  (No well-typedness hypothesis is needed: the checks only
look at values, and the values `1`, `1.0`, `True` are identified by both models.) -/
theorem checkData_agree (data : List (String × Simulate.Col)) (hrect : ts_Rect data) :
    Simulate.checkData data =
      Typing.processAndCheck Typing.supportedGroupings Typing.foreignKeys (ts_embedTable data) :=
  ts_checkData_eq data hrect

/-- acceptance form of `checkData_agree` -/
theorem checkData_agree_accept (data : List (String × Simulate.Col)) (hrect : ts_Rect data) :
    Simulate.checkData data = .ok () ↔
      Typing.processAndCheck Typing.supportedGroupings Typing.foreignKeys (ts_embedTable data) = .ok () := by
  rw [checkData_agree data hrect]

/-- rejection form of `checkData_agree`: if one model rejects, both reject with a `ValueError` -/
theorem checkData_agree_reject (data : List (String × Simulate.Col)) (hrect : ts_Rect data) :
    Simulate.checkData data ≠ .ok () ↔
      (Simulate.checkData data = .error .valueError ∧
        Typing.processAndCheck Typing.supportedGroupings Typing.foreignKeys (ts_embedTable data)
          = .error .valueError) := by
  constructor
  · intro h
    have h1 := Simulate.mi_checkData_error data h
    exact ⟨h1, by rw [← checkData_agree data hrect]; exact h1⟩
  · rintro ⟨h1, _⟩ h
    rw [h1] at h
    cases h

/-- Without the rectangularity hypothesis one direction survives: **whatever model (A) accepts,
model (B) accepts** (model (A) additionally checks that a pointer column has as many rows as `p_id`
and that a group variable is not longer than its id column). -/
theorem checkData_accepted_of_typing (data : List (String × Simulate.Col))
    (h : Typing.processAndCheck Typing.supportedGroupings Typing.foreignKeys (ts_embedTable data) = .ok ()) :
    Simulate.checkData data = .ok () := by
  rw [ts_processAndCheck_eq] at h
  rw [Simulate.mi_checkData_ok_iff]
  apply ts_checkA_embed_imp
  cases hb : ts_checkA Typing.supportedGroupings Typing.foreignKeys (ts_embedTable data) with
  | true => rfl
  | false => rw [hb] at h; cases h

/-- **Ragged tables (not DataFrames): model (A) is strictly stricter.**  A pointer column that is
shorter than `p_id`, or a household variable that is longer than `hh_id`, is accepted by model (B)
(`zip` silently truncates; equal lengths are a documented ASSUMPTION of that model) and rejected by
model (A) (pandas: "Can only compare identically-labeled Series").  Such tables cannot be built as
a `pandas.DataFrame`, so no Python behaviour is contradicted; the hypothesis `ts_Rect` of
`checkData_agree` excludes exactly these. -/
theorem checkData_ragged_disagree :
    (Simulate.checkData
        [("p_id", { dt := .int, vals := [.i 1, .i 2, .i 3] }),
         ("p_id_ehepartner", { dt := .int, vals := [.i 2, .i 1] })] = .ok () ∧
      Typing.processAndCheck Typing.supportedGroupings Typing.foreignKeys (ts_embedTable
        [("p_id", { dt := .int, vals := [.i 1, .i 2, .i 3] }),
         ("p_id_ehepartner", { dt := .int, vals := [.i 2, .i 1] })]) = .error .valueError) ∧
    (Simulate.checkData
        [("p_id", { dt := .int, vals := [.i 1, .i 2, .i 3] }),
         ("hh_id", { dt := .int, vals := [.i 1, .i 1] }),
         ("x_hh", { dt := .float, vals := [.f 5, .f 5, .f 7] })] = .ok () ∧
      Typing.processAndCheck Typing.supportedGroupings Typing.foreignKeys (ts_embedTable
        [("p_id", { dt := .int, vals := [.i 1, .i 2, .i 3] }),
         ("hh_id", { dt := .int, vals := [.i 1, .i 1] }),
         ("x_hh", { dt := .float, vals := [.f 5, .f 5, .f 7] })]) = .error .valueError) := by
  decide +kernel

/-! ## 2. conversion of one column -/

/-- **The two models of `convert_series_to_internal_type` agree.**  For a well-typed column `c` of
model (B) whose dtype differs from the target type `t` (otherwise neither model converts, see
`convertCol_agree_same_dtype`) and whose values respect the range guard `ts_InRange`
(int → float: |v| ≤ 2^53; integral float → int: −2^63 ≤ v < 2^63), model (A)'s `convert` applied to
the embedded column returns the embedding of what model (B)'s `convertCol` returns: the same success
or failure, the same error class, and corresponding result columns. -/
theorem convertCol_agree (t : Simulate.Ty) (c : Simulate.Col) (hwt : ts_WellTyped c)
    (hdt : c.dt ≠ t.toDT) (hr : ts_InRange t c) :
    Typing.convert (ts_embedCol c) (ts_ity t) = (Simulate.convertCol t c).map ts_embedCol :=
  ts_convert_eq t c hwt hdt hr

/-- the same with the simple hypothesis "every value is at most 2^53 in absolute value"
(`ts_Bounded`), which implies the range guard for every target type -/
theorem convertCol_agree_of_bounded (t : Simulate.Ty) (c : Simulate.Col) (hwt : ts_WellTyped c)
    (hdt : c.dt ≠ t.toDT) (hb : ts_Bounded c) :
    Typing.convert (ts_embedCol c) (ts_ity t) = (Simulate.convertCol t c).map ts_embedCol :=
  convertCol_agree t c hwt hdt (ts_inRange_of_bounded t c hb)

/-- success form: (B) succeeds with `c'` ⇒ (A) succeeds with the embedding of `c'`; (A) succeeds with
`d` ⇒ (B) succeeds with a column whose embedding is `d`; and the failures coincide (`ValueError`). -/
theorem convertCol_agree_iff (t : Simulate.Ty) (c : Simulate.Col) (hwt : ts_WellTyped c)
    (hdt : c.dt ≠ t.toDT) (hr : ts_InRange t c) :
    (∀ c', Simulate.convertCol t c = .ok c' → Typing.convert (ts_embedCol c) (ts_ity t) = .ok (ts_embedCol c')) ∧
    (∀ d, Typing.convert (ts_embedCol c) (ts_ity t) = .ok d →
      ∃ c', Simulate.convertCol t c = .ok c' ∧ ts_embedCol c' = d) ∧
    (∀ e, Simulate.convertCol t c = .error e ↔ Typing.convert (ts_embedCol c) (ts_ity t) = .error e) := by
  have h := convertCol_agree t c hwt hdt hr
  refine ⟨fun c' hc => by rw [h, hc]; rfl, fun d hd => ?_, fun e => ?_⟩
  · cases hc : Simulate.convertCol t c with
    | ok c' =>
      rw [h, hc] at hd
      exact ⟨c', rfl, Except.ok.inj hd⟩
    | error e => rw [h, hc] at hd; cases hd
  · cases hc : Simulate.convertCol t c with
    | ok c' => rw [h, hc]; exact ⟨fun h' => (by cases h'), fun h' => (by cases h')⟩
    | error e' =>
      rw [h, hc]
      exact ⟨fun h' => (by cases h'; rfl), fun h' => (by cases h'; rfl)⟩

/-- if the column already has the declared type, model (B) returns it unchanged and model (A) does
not call `convert` at all (`check_series_has_expected_type` is true) -/
theorem convertCol_agree_same_dtype (t : Simulate.Ty) (c : Simulate.Col) (hdt : c.dt = t.toDT) :
    Simulate.convertCol t c = .ok c ∧ Typing.hasExpectedType (ts_embedCol c) (ts_ity t) = true := by
  refine ⟨by unfold Simulate.convertCol; rw [if_pos hdt], ?_⟩
  rw [ts_hasExpectedType_embed, decide_eq_true hdt]

/-- **DISAGREEMENT 1 (int → float above 2^53).**  For the int column `[2^53 + 1]` both models
succeed, but model (A) returns the double `2^53` (the Python behaviour: `astype(float)` rounds to the
nearest double, see the probe table in `Core/Typing.lean`) whereas model (B) returns the exact value
`2^53 + 1`, which is not a double.  Model (B) claims "lossless", the real conversion is not. -/
theorem convertCol_disagree_above_2_53 :
    Simulate.convertCol .float { dt := .int, vals := [.i (2 ^ 53 + 1)] }
      = .ok { dt := .float, vals := [.f (2 ^ 53 + 1)] } ∧
    Typing.convert (ts_embedCol { dt := .int, vals := [.i (2 ^ 53 + 1)] }) (ts_ity .float)
      = .ok ⟨.float64, [.f (2 ^ 53)]⟩ ∧
    ts_embedCol { dt := .float, vals := [.f (2 ^ 53 + 1)] } ≠ ⟨.float64, [.f (2 ^ 53)]⟩ := by
  decide +kernel

/-- **DISAGREEMENT 2 (float → int beyond int64).**  For the float column `[2^63]` model (A) raises
a `ValueError` (the Python behaviour: `2.0**63 → ValueError`), model (B) succeeds with the unbounded
integer `2^63`. -/
theorem convertCol_disagree_beyond_int64 :
    Simulate.convertCol .int { dt := .float, vals := [.f (2 ^ 63)] }
      = .ok { dt := .int, vals := [.i (2 ^ 63)] } ∧
    Typing.convert (ts_embedCol { dt := .float, vals := [.f (2 ^ 63)] }) (ts_ity .int)
      = .error .valueError := by
  decide +kernel

/-- The well-typedness hypothesis cannot be dropped either: a column tagged `bool` that holds `0.5`
(never produced by `colOfData`) is truncated by model (B) and reported as a model error by (A). -/
theorem convertCol_disagree_illTyped :
    Simulate.convertCol .int { dt := .bool, vals := [.f (1 / 2)] } = .ok { dt := .int, vals := [.i 0] } ∧
    Typing.convert (ts_embedCol { dt := .bool, vals := [.f (1 / 2)] }) (ts_ity .int) = .error .other := by
  decide +kernel

/-! ## 3. conversion of the table -/

/-- **The two models of `_convert_data_to_correct_types` agree.**  Let `types` be the declared-types
table given to model (A) and suppose it assigns to every column name of `data` what model (B) looks
up (`TYPES_INPUT_VARIABLES`, then the return annotation of an overridden function); let the columns
be well typed and, for their declared type, within the range guard (`ts_TableOK`).  Then model (A)
succeeds iff model (B) succeeds, the converted table of (A) is the embedding of the converted table
of (B), and a failure is a `ValueError` in both models (the left-hand side forgets the list of
converted names, for which model (B) has no counterpart; see `convertData_agree_warning`). -/
theorem convertData_agree (types : List (String × Typing.ITy)) (ov : List Simulate.Fn)
    (data : List (String × Simulate.Col)) (hok : ts_TableOK types ov data) :
    (Typing.convertAll types (ts_embedTable data)).map (·.1) =
      (Simulate.convertData data ov).map ts_embedTable :=
  ts_convertAll_eq types ov data hok

/-- the `types` hypothesis of `convertData_agree` is satisfiable for every table: take the table
`ts_typesFor`, i.e. model (B)'s own lookup restricted to the column names of the data -/
theorem convertData_agree_types (ov : List Simulate.Fn) (data : List (String × Simulate.Col)) :
    ∀ e ∈ data, Typing.lookupTy (ts_typesFor ov (data.map (·.1))) e.1 =
      (Simulate.mi_convType ov e.1).map ts_ity :=
  ts_typesFor_ok ov data

/-- **The warning.**  Model (B) does not model the `UserWarning`.  When model (A) succeeds, the
names listed in its warning are exactly the columns of model (B) whose dtype differs from their
declared type (`ts_needsConvB`), so a warning is emitted iff model (B) really converts a column. -/
theorem convertData_agree_warning (types : List (String × Typing.ITy)) (ov : List Simulate.Fn)
    (data : List (String × Simulate.Col)) (hok : ts_TableOK types ov data)
    (T : Typing.Table) (names : List String)
    (h : Typing.convertAll types (ts_embedTable data) = .ok (T, names)) :
    names = (data.filter (ts_needsConvB ov)).map (·.1) ∧
      (names ≠ [] ↔ ∃ e ∈ data, ts_needsConvB ov e = true) := by
  have h1 := (Typing.warning_iff_converted types _ T names h).1
  rw [ts_filter_needsConv types ov data hok.types] at h1
  refine ⟨h1, ?_⟩
  rw [h1]
  constructor
  · intro hne
    cases hf : data.filter (ts_needsConvB ov) with
    | nil => rw [hf] at hne; exact absurd rfl hne
    | cons e rest =>
      have hm : e ∈ data.filter (ts_needsConvB ov) := by rw [hf]; exact List.mem_cons_self
      exact ⟨e, (List.mem_filter.mp hm).1, (List.mem_filter.mp hm).2⟩
  · rintro ⟨e, he, hb⟩ hnil
    have : e.1 ∈ (data.filter (ts_needsConvB ov)).map (·.1) :=
      List.mem_map.mpr ⟨e, List.mem_filter.mpr ⟨he, hb⟩, rfl⟩
    rw [hnil] at this
    cases this

/-! ## 4. transporting theorems between the models -/

/-- **(A) ⇒ (B).**  `Typing.accepts_iff`, a theorem about model (A), characterises the tables
accepted by model (B): column names unique, group variables constant, `p_id` present and unique,
foreign keys valid – all stated with the declarative predicates of `Lemmas/Typing.lean` on the
embedded table.  (An alternative route to `Simulate.checkData_ok_iff`.) -/
theorem checkData_ok_iff_via_typing (data : List (String × Simulate.Col)) (hrect : ts_Rect data) :
    Simulate.checkData data = .ok () ↔
      Typing.NoDupColumns (ts_embedTable data) ∧
      Typing.GroupVarsConstant Typing.supportedGroupings (ts_embedTable data) ∧
      Typing.PidPresentUnique (ts_embedTable data) ∧
      Typing.ForeignKeysValid Typing.foreignKeys (ts_embedTable data) := by
  rw [checkData_agree data hrect, Typing.accepts_iff]

/-- … and unfolding one conjunct into the vocabulary of model (B): a table accepted by
`Simulate.checkData` has a column `p_id` with pairwise different values (this is one half of
`Simulate.checkData_ok_iff`, obtained here from model (A)'s theorem only). -/
theorem checkData_ok_pid_via_typing (data : List (String × Simulate.Col)) (hrect : ts_Rect data)
    (h : Simulate.checkData data = .ok ()) :
    ∃ pid, ("p_id", pid) ∈ data ∧ pid.rats.Nodup := by
  obtain ⟨_, _, ⟨p, hp, hd⟩, _⟩ := (checkData_ok_iff_via_typing data hrect).mp h
  obtain ⟨c, hc, rfl⟩ := ts_mem_embedTable hp
  exact ⟨c, hc, (ts_distinct_embed c.vals).mp hd⟩

/-- **(A) ⇒ (B), a rejection theorem.**  `Typing.duplicate_pid_rejected` transported: two rows of
the `p_id` column of model (B) with the same value make `Simulate.checkData` fail with a
`ValueError` (compare `Simulate.checkData_rejects_duplicate_pid`). -/
theorem checkData_rejects_duplicate_pid_via_typing (data : List (String × Simulate.Col))
    (hrect : ts_Rect data) (pid : Simulate.Col) (hp : ("p_id", pid) ∈ data) (i j : Nat) (hij : i < j)
    (a b : R) (hi : pid.vals[i]? = some a) (hj : pid.vals[j]? = some b)
    (hab : VecDtype.numOf a = VecDtype.numOf b) :
    Simulate.checkData data = .error .valueError := by
  rw [checkData_agree data hrect]
  refine Typing.duplicate_pid_rejected _ _ _ (ts_embedCol pid) i j (ts_embedCell a) (ts_embedCell b)
    (ts_mem_embedTable_of hp) hij ?_ ?_ ((ts_key_eq_iff a b).mpr hab)
  · show (pid.vals.map ts_embedCell)[i]? = _
    rw [List.getElem?_map, hi]; rfl
  · show (pid.vals.map ts_embedCell)[j]? = _
    rw [List.getElem?_map, hj]; rfl

/-- **(B) ⇒ (A).**  `Simulate.convertCol_lossless`, a theorem about model (B), yields the statement
of `Typing.convert_lossless` for embedded columns: if model (A) converts the embedding of a
well-typed, in-range column successfully, the result has the target dtype, the same number of rows
and the same numeric value in every row.  (The proof does not use `Typing.convert_lossless`.) -/
theorem convert_lossless_via_simulate (t : Simulate.Ty) (c : Simulate.Col) (hwt : ts_WellTyped c)
    (hdt : c.dt ≠ t.toDT) (hr : ts_InRange t c) (d : Typing.Col)
    (h : Typing.convert (ts_embedCol c) (ts_ity t) = .ok d) :
    d.dtype = (ts_ity t).dtype ∧ d.cells.length = (ts_embedCol c).cells.length ∧
      ∀ (i : Nat) (h1 : i < (ts_embedCol c).cells.length) (h2 : i < d.cells.length),
        Typing.numOf d.cells[i] = Typing.numOf (ts_embedCol c).cells[i] := by
  obtain ⟨c', hc', rfl⟩ := (convertCol_agree_iff t c hwt hdt hr).2.1 d h
  obtain ⟨hlen, hval, hdt'⟩ := Simulate.convertCol_lossless t c c'
    (fun hb r hr' => by rw [hwt r hr', hb]) hc'
  refine ⟨by rw [ts_ity_dtype, ← hdt']; rfl, by simp [ts_embedCol, hlen], fun i h1 h2 => ?_⟩
  simp only [ts_embedCol, List.length_map] at h1 h2
  simp only [ts_embedCol, List.getElem_map, ts_numOf_embed]
  have := hval i
  rw [List.getElem?_eq_getElem h1, List.getElem?_eq_getElem h2] at this
  simpa using this

/-! ## 5. non-vacuity: concrete tables -/
namespace C20BridgeExamples

def ci (xs : List Int) : Simulate.Col := { dt := .int, vals := xs.map .i }
def cf (xs : List Rat) : Simulate.Col := { dt := .float, vals := xs.map .f }
def cb (xs : List Bool) : Simulate.Col := { dt := .bool, vals := xs.map .b }

/-- three persons, two households, a couple, a household variable -/
def good : List (String × Simulate.Col) :=
  [("p_id", ci [1, 2, 3]), ("hh_id", ci [1, 1, 2]), ("p_id_ehepartner", ci [2, 1, -1]),
   ("wohnfläche_hh", cf [50, 50, 70])]

def setCol (d : List (String × Simulate.Col)) (n : String) (c : Simulate.Col) : List (String × Simulate.Col) :=
  d.map fun e => if e.1 = n then (n, c) else e

-- the embedding is what one expects
example : ts_embedTable good =
    [("p_id", ⟨.int64, [.i 1, .i 2, .i 3]⟩), ("hh_id", ⟨.int64, [.i 1, .i 1, .i 2]⟩),
     ("p_id_ehepartner", ⟨.int64, [.i 2, .i 1, .i (-1)]⟩),
     ("wohnfläche_hh", ⟨.float64, [.f 50, .f 50, .f 70]⟩)] := by decide +kernel

-- accepted by both models (hypothesis of `checkData_agree`: the table is rectangular)
example : ts_Rect good := by decide +kernel
example : Simulate.checkData good = .ok () := by decide +kernel
example : Typing.processAndCheck Typing.supportedGroupings Typing.foreignKeys (ts_embedTable good) = .ok () :=
  (checkData_agree_accept good (by decide +kernel)).mp (by decide +kernel)
example : Typing.processAndCheck Typing.supportedGroupings Typing.foreignKeys (ts_embedTable good) = .ok () := by
  decide +kernel
-- … also with mixed dtypes: float `p_id`, int pointers, a Boolean household variable
example : ts_Rect (setCol good "p_id" (cf [1, 2, 3]) ++ [("eigentum_hh", cb [true, true, false])]) ∧
    Simulate.checkData (setCol good "p_id" (cf [1, 2, 3]) ++ [("eigentum_hh", cb [true, true, false])]) = .ok () ∧
    Typing.processAndCheck Typing.supportedGroupings Typing.foreignKeys
      (ts_embedTable (setCol good "p_id" (cf [1, 2, 3]) ++ [("eigentum_hh", cb [true, true, false])])) = .ok () := by
  decide +kernel

/-- the six fault classes, each on a variant of `good` -/
def faulty : List (List (String × Simulate.Col)) :=
  [good ++ [("hh_id", ci [1, 1, 1])],                    -- duplicate column
   good.drop 1,                                          -- no `p_id`
   setCol good "p_id" (ci [1, 2, 1]),                    -- duplicate `p_id`
   setCol good "p_id_ehepartner" (ci [2, 1, 7]),         -- pointer to nobody
   setCol good "p_id_ehepartner" (ci [2, 1, 3]),         -- pointer to oneself
   setCol good "wohnfläche_hh" (cf [50, 60, 70])]        -- household variable varies within a household

-- every faulty table is rectangular (hypothesis of `checkData_agree` / `checkData_agree_reject`) …
example : ∀ d ∈ faulty, ts_Rect d := by decide +kernel
-- … is rejected by model (B) …
example : ∀ d ∈ faulty, Simulate.checkData d ≠ .ok () := by decide +kernel
-- … hence by both models with a `ValueError` (via the theorem) …
example : ∀ d ∈ faulty, Simulate.checkData d = .error .valueError ∧
    Typing.processAndCheck Typing.supportedGroupings Typing.foreignKeys (ts_embedTable d) = .error .valueError :=
  fun d hd => (checkData_agree_reject d ((by decide +kernel : ∀ d ∈ faulty, ts_Rect d) d hd)).mp
    ((by decide +kernel : ∀ d ∈ faulty, Simulate.checkData d ≠ .ok ()) d hd)
-- … which the direct evaluation of model (A) confirms
example : ∀ d ∈ faulty,
    Typing.processAndCheck Typing.supportedGroupings Typing.foreignKeys (ts_embedTable d) = .error .valueError := by
  decide +kernel

-- `checkData_accepted_of_typing`: its hypothesis holds for `good`
example : Simulate.checkData good = .ok () := checkData_accepted_of_typing good (by decide +kernel)

-- conversion of one column: hypotheses of `convertCol_agree` and both sides, success …
example : ts_WellTyped (cf [1, 2, 40]) ∧ (cf [1, 2, 40]).dt ≠ Simulate.Ty.int.toDT ∧
    ts_InRange .int (cf [1, 2, 40]) := by decide +kernel
example : Simulate.convertCol .int (cf [1, 2, 40]) = .ok (ci [1, 2, 40]) ∧
    Typing.convert (ts_embedCol (cf [1, 2, 40])) (ts_ity .int) = .ok (ts_embedCol (ci [1, 2, 40])) := by
  decide +kernel
example : Typing.convert (ts_embedCol (cf [1, 2, 40])) (ts_ity .int) = .ok (ts_embedCol (ci [1, 2, 40])) :=
  (convertCol_agree_iff .int (cf [1, 2, 40]) (by decide +kernel) (by decide +kernel) (by decide +kernel)).1 _
    (by decide +kernel)
example : ts_WellTyped (ci [0, 1, 1]) ∧ (ci [0, 1, 1]).dt ≠ Simulate.Ty.bool.toDT ∧ ts_InRange .bool (ci [0, 1, 1]) ∧
    Simulate.convertCol .bool (ci [0, 1, 1]) = .ok (cb [false, true, true]) ∧
    Typing.convert (ts_embedCol (ci [0, 1, 1])) (ts_ity .bool) = .ok (ts_embedCol (cb [false, true, true])) := by
  decide +kernel
example : ts_WellTyped (ci [0, 1, -3, 2 ^ 53]) ∧ (ci [0, 1, -3, 2 ^ 53]).dt ≠ Simulate.Ty.float.toDT ∧
    ts_InRange .float (ci [0, 1, -3, 2 ^ 53]) ∧
    Simulate.convertCol .float (ci [0, 1, -3, 2 ^ 53]) = .ok (cf [0, 1, -3, 2 ^ 53]) ∧
    Typing.convert (ts_embedCol (ci [0, 1, -3, 2 ^ 53])) (ts_ity .float) = .ok (ts_embedCol (cf [0, 1, -3, 2 ^ 53])) := by
  decide +kernel
example : ts_WellTyped (cb [true, false]) ∧ (cb [true, false]).dt ≠ Simulate.Ty.int.toDT ∧
    ts_InRange .int (cb [true, false]) ∧
    Simulate.convertCol .int (cb [true, false]) = .ok (ci [1, 0]) ∧
    Typing.convert (ts_embedCol (cb [true, false])) (ts_ity .int) = .ok (ts_embedCol (ci [1, 0])) := by
  decide +kernel
-- … and the three rejections (fraction → int, 2 → bool, bool → float)
example : ts_WellTyped (cf [1, 5 / 2]) ∧ (cf [1, 5 / 2]).dt ≠ Simulate.Ty.int.toDT ∧ ts_InRange .int (cf [1, 5 / 2]) ∧
    Simulate.convertCol .int (cf [1, 5 / 2]) = .error .valueError ∧
    Typing.convert (ts_embedCol (cf [1, 5 / 2])) (ts_ity .int) = .error .valueError := by decide +kernel
example : ts_WellTyped (ci [0, 2]) ∧ (ci [0, 2]).dt ≠ Simulate.Ty.bool.toDT ∧ ts_InRange .bool (ci [0, 2]) ∧
    Simulate.convertCol .bool (ci [0, 2]) = .error .valueError ∧
    Typing.convert (ts_embedCol (ci [0, 2])) (ts_ity .bool) = .error .valueError := by decide +kernel
example : ts_WellTyped (cb [true]) ∧ (cb [true]).dt ≠ Simulate.Ty.float.toDT ∧ ts_InRange .float (cb [true]) ∧
    Simulate.convertCol .float (cb [true]) = .error .valueError ∧
    Typing.convert (ts_embedCol (cb [true])) (ts_ity .float) = .error .valueError := by decide +kernel
-- the range guard fails exactly for the two counterexamples
example : ¬ ts_InRange .float (ci [2 ^ 53 + 1]) ∧ ¬ ts_InRange .int (cf [2 ^ 63]) ∧
    ts_InRange .int (cf [2 ^ 63 - 1]) := by decide +kernel
-- `convertCol_agree_of_bounded`: the bound holds up to 2^53 and fails just above
example : ts_Bounded (ci [0, 1, -3, 2 ^ 53]) ∧ ts_Bounded (cf [1, 5 / 2]) ∧ ¬ ts_Bounded (ci [2 ^ 53 + 1]) := by
  decide +kernel
-- `convertCol_agree_same_dtype`
example : (ci [1, 2]).dt = Simulate.Ty.int.toDT := by decide

/-- `p_id` and `alter` (typed input variables, `int`) arrive as float, `weiblich` (`bool`) as int,
`x` is unknown and `y` overrides a function annotated `float` -/
def tbl : List (String × Simulate.Col) :=
  [("p_id", cf [1, 2, 3]), ("hh_id", ci [1, 1, 2]), ("alter", cf [30, 41, 7]), ("x", ci [1, 2, 3]),
   ("y", ci [3, 4, 5]), ("weiblich", ci [0, 1, 1])]
def ov : List Simulate.Fn := [{ name := "y", args := [], ann := some .float, kind := .timeConv "y" .m .y }]
def tys : List (String × Typing.ITy) := ts_typesFor ov (tbl.map (·.1))
def tblOut : List (String × Simulate.Col) :=
  [("p_id", ci [1, 2, 3]), ("hh_id", ci [1, 1, 2]), ("alter", ci [30, 41, 7]), ("x", ci [1, 2, 3]),
   ("y", cf [3, 4, 5]), ("weiblich", cb [false, true, true])]

example : tys = [("p_id", .int), ("hh_id", .int), ("alter", .int), ("y", .float), ("weiblich", .bool)] := by
  decide +kernel
-- hypothesis of `convertData_agree`
theorem tbl_ok : ts_TableOK tys ov tbl := ts_tableOK_of_check (by decide +kernel)
-- both sides
example : Simulate.convertData tbl ov = .ok tblOut := by decide +kernel
example : Typing.convertAll tys (ts_embedTable tbl) =
    .ok (ts_embedTable tblOut, ["p_id", "alter", "y", "weiblich"]) := by decide +kernel
example : (Typing.convertAll tys (ts_embedTable tbl)).map (·.1) = .ok (ts_embedTable tblOut) := by
  rw [convertData_agree tys ov tbl tbl_ok]; decide +kernel
-- the warning: exactly the four converted columns
example : (tbl.filter (ts_needsConvB ov)).map (·.1) = ["p_id", "alter", "y", "weiblich"] := by decide +kernel
-- a table with a fractional age is rejected by both models
def tblBad := setCol tbl "alter" (cf [30, 41 / 2, 7])
theorem tblBad_ok : ts_TableOK tys ov tblBad := ts_tableOK_of_check (by decide +kernel)
example : Simulate.convertData tblBad ov = .error .valueError ∧
    Typing.convertAll tys (ts_embedTable tblBad) = .error .valueError := by decide +kernel

-- transport (A) ⇒ (B): hypotheses of `checkData_rejects_duplicate_pid_via_typing`
example : Simulate.checkData (setCol good "p_id" (ci [1, 2, 1])) = .error .valueError :=
  checkData_rejects_duplicate_pid_via_typing _ (by decide +kernel) (ci [1, 2, 1]) (by decide +kernel) 0 2
    (by decide) (.i 1) (.i 1) (by decide +kernel) (by decide +kernel) rfl
-- `checkData_ok_pid_via_typing` on `good`
example : ∃ pid, ("p_id", pid) ∈ good ∧ pid.rats.Nodup :=
  checkData_ok_pid_via_typing good (by decide +kernel) (by decide +kernel)
-- transport (B) ⇒ (A): hypotheses of `convert_lossless_via_simulate`
example : Typing.convert (ts_embedCol (cf [1, 2, 40])) (ts_ity .int) = .ok ⟨.int64, [.i 1, .i 2, .i 40]⟩ := by
  decide +kernel
example : (⟨.int64, [.i 1, .i 2, .i 40]⟩ : Typing.Col).dtype = (ts_ity .int).dtype ∧
    (⟨.int64, [.i 1, .i 2, .i 40]⟩ : Typing.Col).cells.length = (ts_embedCol (cf [1, 2, 40])).cells.length :=
  let h := convert_lossless_via_simulate .int (cf [1, 2, 40]) (by decide +kernel) (by decide +kernel)
    (by decide +kernel) ⟨.int64, [.i 1, .i 2, .i 40]⟩ (by decide +kernel)
  ⟨h.1, h.2.1⟩

end C20BridgeExamples

end GV.TypingSim
