import GettsimVerif.Core.Round
import GettsimVerif.Generated.Config
import GettsimVerif.Generated.Registry
import GettsimVerif.Generated.Rounding
/-
C10 — instance obligations on the tables regenerated from /repo (kernel-decided).
-/
namespace GV.Props.C10Inst
open GV.Reg GV.Gen

def entryWellFormed (e : RoundingEntry) : Bool :=
  (match e.base with | some b => decide (0 < b) | none => false) &&
  (match e.direction with | some d => (Round.parseDir d).isSome | none => false)

/-- every dated rounding entry of every parameter file has a positive base and a
direction among up / down / nearest -/
theorem rounding_entries_wellformed : roundingEntries.all entryWellFormed = true := by
  decide +kernel

/-- the loader transports every part of a rounding specification that some entry uses:
`base`, `direction`, and — if any entry carries an offset — `to_add_after_rounding` -/
theorem rounding_spec_fully_transported :
    (roundingParameters.contains "base" && roundingParameters.contains "direction" &&
      (roundingEntries.all (fun e => e.off.isNone) ||
        roundingParameters.contains "to_add_after_rounding")) = true := by
  decide +kernel

/-- every rounding entry belongs to a rule that carries the matching rounding key
(no dead specification), and every rule with a rounding key has at least one entry -/
theorem rounding_keys_match_entries :
    (roundingEntries.all (fun e => rules.any fun r => r.dagName = e.fn && r.roundingKey = some e.group) &&
     (rules.filter (·.roundingKey.isSome)).all (fun r =>
        roundingEntries.any fun e => e.fn = r.dagName && some e.group = r.roundingKey)) = true := by
  decide +kernel

end GV.Props.C10Inst
