import GettsimVerif.Lemmas.DagCols
/-
Property C01: the result does not depend on the order of the rows — abstractly.

Model: `GV.Dag` (`Core/Dag.lean`). Part 1 is a general lifting theorem for an arbitrary relation
`R` between the columns of two runs (name-indexed master versions `eval_respects_named`,
`eval_respects_err_named` are in `Lemmas/Dag.lean`). Part 2 instantiates it for columns that
are lists (`α := List β`) and `R c c' := c' = c gathered by the index list σ`
(`permute σ c = σ.map (c.getD · default)`, `PermRel σ c c' := c.length = σ.length ∧ c' = permute σ c`).
Mixed columns: cells are of one type `β`; the grouped node decodes the group id of a cell with
`key : β → Int` (for `β = Rat`: ids are integral rationals, `key = Rat.num`).
-/
namespace GV.Dag

variable {α : Type}

/-! ## 1. general lifting -/

/-- C01.1 If every node operation maps `R`-related arguments to `R`-related results and the two
data sets have the same column names (same order) with `R`-related columns, every value
computed from `D` has an `R`-related counterpart computed from `D'` with the same fuel. -/
theorem eval_respects (R : α → α → Prop) (S : Sys α) (D D' : Data α)
    (hops : ∀ n node, find? S n = some node → ∀ args args', List.Forall₂ R args args' →
      ∀ c, node.op args = .ok c → ∃ c', node.op args' = .ok c' ∧ R c c')
    (hD : List.Forall₂ (fun a b => a.1 = b.1 ∧ R a.2 b.2) D D')
    (k : Nat) (n : Name) (c : α) (h : eval S D k n = .ok c) :
    ∃ c', eval S D' k n = .ok c' ∧ R c c' :=
  eval_respects_named (fun _ => R) S D D'
    (fun n node hS as as' hrel c hc => hops n node hS as as' hrel.forall₂ c hc) hD k n c h

/-- C01.1' Error direction: if the operations in addition reproduce errors on related
arguments, every error of the first run is the error of the second run. -/
theorem eval_respects_err (R : α → α → Prop) (S : Sys α) (D D' : Data α)
    (hops : ∀ n node, find? S n = some node → ∀ args args', List.Forall₂ R args args' →
      ∀ c, node.op args = .ok c → ∃ c', node.op args' = .ok c' ∧ R c c')
    (hopsE : ∀ n node, find? S n = some node → ∀ args args', List.Forall₂ R args args' →
      ∀ e, node.op args = .error e → node.op args' = .error e)
    (hD : List.Forall₂ (fun a b => a.1 = b.1 ∧ R a.2 b.2) D D')
    (k : Nat) (n : Name) (e : Err) (h : eval S D k n = .error e) :
    eval S D' k n = .error e := by
  obtain ⟨e', he', rfl⟩ := eval_respects_err_named (fun _ => R) Eq (fun _ => rfl) S D D'
    (fun n node hS as as' hrel c hc => hops n node hS as as' hrel.forall₂ c hc)
    (fun n node hS as as' hrel e he => ⟨e, hopsE n node hS as as' hrel.forall₂ e he, rfl⟩)
    hD k n e h
  exact he'

/-- C01.1'' Error direction up to a reflexive relation `E` on errors (for row permutations the
error reported first may change: take `E := fun _ _ => True`). -/
theorem eval_respects_err_rel (R : α → α → Prop) (E : Err → Err → Prop) (hE : ∀ e, E e e)
    (S : Sys α) (D D' : Data α)
    (hops : ∀ n node, find? S n = some node → ∀ args args', List.Forall₂ R args args' →
      ∀ c, node.op args = .ok c → ∃ c', node.op args' = .ok c' ∧ R c c')
    (hopsE : ∀ n node, find? S n = some node → ∀ args args', List.Forall₂ R args args' →
      ∀ e, node.op args = .error e → ∃ e', node.op args' = .error e' ∧ E e e')
    (hD : List.Forall₂ (fun a b => a.1 = b.1 ∧ R a.2 b.2) D D')
    (k : Nat) (n : Name) (e : Err) (h : eval S D k n = .error e) :
    ∃ e', eval S D' k n = .error e' ∧ E e e' :=
  eval_respects_err_named (fun _ => R) E hE S D D'
    (fun n node hS as as' hrel c hc => hops n node hS as as' hrel.forall₂ c hc)
    (fun n node hS as as' hrel e he => hopsE n node hS as as' hrel.forall₂ e he)
    hD k n e h

/-! ## 2. columns as lists, row permutations -/

variable {β : Type} [Inhabited β]

/-- C01.2 A row-wise operation ("zip the argument columns, apply `f` per row") maps columns
gathered by `σ` to the result gathered by `σ`. Only validity of the indices is needed, so this
covers permutations, sub-samples and re-samples of the rows. -/
theorem rowwise_respects_perm (f : List β → Except Err β) (σ : List Nat)
    (hσ : ∀ i ∈ σ, i < σ.length) (args args' : List (List β))
    (h : List.Forall₂ (PermRel σ) args args') (c : List β) (hc : rowwise f args = .ok c) :
    ∃ c', rowwise f args' = .ok c' ∧ PermRel σ c c' :=
  rowwise_respects_gather f σ.length σ hσ args args' h c hc

/-- C01.3 A system all of whose operations are row-wise is equivariant under any row
permutation (indeed under any gather by valid indices): permuting all input columns by `σ`
permutes every computed column by `σ`. -/
theorem simulate_perm (S : Sys (List β)) (D D' : Data (List β)) (σ : List Nat)
    (hσ : ∀ i ∈ σ, i < σ.length)
    (hS : ∀ n node, find? S n = some node → IsRowwise node)
    (hD : List.Forall₂ (fun a b => a.1 = b.1 ∧ PermRel σ a.2 b.2) D D')
    (k : Nat) (n : Name) (c : List β) (h : eval S D k n = .ok c) :
    eval S D' k n = .ok (permute σ c) := by
  obtain ⟨c', hc', _, rfl⟩ := eval_respects (PermRel σ) S D D'
    (fun n node hn args args' hrel c hc => by
      obtain ⟨f, hf⟩ := hS n node hn
      rw [hf] at hc ⊢
      exact rowwise_respects_perm f σ hσ args args' hrel c hc) hD k n c h
  exact hc'

/-- C01.3' explicit form of the permuted data: if all data columns have `σ.length` rows, the
data with every column permuted are related to the original data. -/
theorem permuted_data_rel (D : Data (List β)) (σ : List Nat)
    (hD : ∀ p ∈ D, p.2.length = σ.length) :
    List.Forall₂ (fun a b => a.1 = b.1 ∧ PermRel σ a.2 b.2) D
      (D.map fun p => (p.1, permute σ p.2)) := by
  induction D with
  | nil => exact .nil
  | cons p D ih =>
    exact .cons ⟨rfl, hD p List.mem_cons_self, rfl⟩
      (ih fun q hq => hD q (List.mem_cons_of_mem _ hq))

/-- C01.4 The aggregation node `[col, gid] ↦ Agg.grouped f dflt col (gid.map key)` with a
commutative and associative `f` maps permuted inputs to the identically permuted output. -/
theorem grouped_respects_perm (key : β → Int) (f : β → β → β) (dflt : β)
    (hc : ∀ a b, f a b = f b a) (ha : ∀ a b c, f (f a b) c = f a (f b c))
    (σ : List Nat) (hσ : σ.Perm (List.range σ.length)) (args args' : List (List β))
    (h : List.Forall₂ (PermRel σ) args args') (c : List β)
    (hc' : groupedOp key f dflt args = .ok c) :
    ∃ c', groupedOp key f dflt args' = .ok c' ∧ PermRel σ c c' :=
  grouped_respects_perm_lemma key f dflt hc ha σ hσ args args' h c hc'

/-- C01.5 A system whose operations are row-wise or commutative-associative aggregations is
equivariant under every permutation of the rows. -/
theorem simulate_perm_grouped (key : β → Int) (S : Sys (List β)) (D D' : Data (List β))
    (σ : List Nat) (hσ : σ.Perm (List.range σ.length))
    (hS : ∀ n node, find? S n = some node → IsRowwise node ∨ IsGroupedCA key node)
    (hD : List.Forall₂ (fun a b => a.1 = b.1 ∧ PermRel σ a.2 b.2) D D')
    (k : Nat) (n : Name) (c : List β) (h : eval S D k n = .ok c) :
    eval S D' k n = .ok (permute σ c) := by
  have hvalid : ∀ i ∈ σ, i < σ.length := fun i hi => List.mem_range.1 (hσ.mem_iff.1 hi)
  obtain ⟨c', hc', _, rfl⟩ := eval_respects (PermRel σ) S D D'
    (fun n node hn args args' hrel c hc => by
      rcases hS n node hn with ⟨f, hf⟩ | ⟨f, dflt, hcomm, hassoc, hf⟩
      · rw [hf] at hc ⊢
        exact rowwise_respects_perm f σ hvalid args args' hrel c hc
      · rw [hf] at hc ⊢
        exact grouped_respects_perm key f dflt hcomm hassoc σ hσ args args' hrel c hc) hD k n c h
  exact hc'

/-- C01.5' Errors: in a row-wise system, a run that fails on `D` also fails on the permuted
data (possibly with the error of another row). -/
theorem simulate_perm_err (S : Sys (List β)) (D D' : Data (List β)) (σ : List Nat)
    (hσ : σ.Perm (List.range σ.length))
    (hS : ∀ n node, find? S n = some node → IsRowwise node)
    (hD : List.Forall₂ (fun a b => a.1 = b.1 ∧ PermRel σ a.2 b.2) D D')
    (k : Nat) (n : Name) (e : Err) (h : eval S D k n = .error e) :
    ∃ e', eval S D' k n = .error e' := by
  have hvalid : ∀ i ∈ σ, i < σ.length := fun i hi => List.mem_range.1 (hσ.mem_iff.1 hi)
  obtain ⟨e', he', _⟩ := eval_respects_err_rel (PermRel σ) (fun _ _ => True) (fun _ => trivial)
    S D D'
    (fun n node hn args args' hrel c hc => by
      obtain ⟨f, hf⟩ := hS n node hn
      rw [hf] at hc ⊢
      exact rowwise_respects_perm f σ hvalid args args' hrel c hc)
    (fun n node hn args args' hrel e he => by
      obtain ⟨f, hf⟩ := hS n node hn
      rw [hf] at he ⊢
      obtain ⟨e', he'⟩ := rowwise_respects_perm_err f σ hσ args args' hrel e he
      exact ⟨e', he', trivial⟩) hD k n e h
  exact ⟨e', he'⟩

/-! ### non-vacuity: 4 rows, columns of rationals, ids are integral rationals -/

private def sub2 : List Rat → Except Err Rat
  | [a, b] => .ok (a - b)
  | _ => .error .typeError
private def quarter : List Rat → Except Err Rat
  | [a] => .ok (a / 4)
  | _ => .error .typeError

/-- `inc`, `hh` are data; `tax` is a function overridden by a data column; `net` is row-wise;
`hh_net` aggregates `net` by household -/
private def S0 : Sys (List Rat) :=
  [("tax", ⟨["inc"], rowwise quarter⟩),
   ("net", ⟨["inc", "tax"], rowwise sub2⟩),
   ("hh_net", ⟨["net", "hh"], groupedOp Rat.num (· + ·) 0⟩),
   ("rest", ⟨["hh_net", "net"], rowwise sub2⟩)]
private def D0 : Data (List Rat) :=
  [("inc", [100, 40, 60, 8]), ("hh", [7, 3, 7, 3]), ("tax", [10, 4, 6, 0])]
private def σ0 : List Nat := [2, 0, 3, 1]

example : σ0.Perm (List.range σ0.length) := by decide
example : ∀ p ∈ D0, p.2.length = σ0.length := by decide
example : eval S0 D0 4 "rest" = .ok [54, 8, 90, 36] := by decide +kernel
example : eval S0 (D0.map fun p => (p.1, permute σ0 p.2)) 4 "rest" = .ok [90, 54, 36, 8] := by
  decide +kernel
example : permute σ0 ([54, 8, 90, 36] : List Rat) = [90, 54, 36, 8] := by decide +kernel
/-- without the override the function `tax` is used -/
example : eval S0 (D0.take 2) 4 "net" = .ok [75, 30, 45, 6] := by decide +kernel
/-- every node of `S0` is row-wise or a commutative-associative aggregation -/
private theorem S0_kinds :
    ∀ n node, find? S0 n = some node → IsRowwise node ∨ IsGroupedCA Rat.num node := by
  intro n node h
  have hm := find?_mem S0 n node h
  simp only [S0, List.mem_cons, Prod.mk.injEq, List.not_mem_nil, or_false] at hm
  rcases hm with ⟨_, rfl⟩ | ⟨_, rfl⟩ | ⟨_, rfl⟩ | ⟨_, rfl⟩
  · exact Or.inl ⟨_, rfl⟩
  · exact Or.inl ⟨_, rfl⟩
  · exact Or.inr ⟨(· + ·), 0, Rat.add_comm, Rat.add_assoc, rfl⟩
  · exact Or.inl ⟨_, rfl⟩
/-- all hypotheses of `simulate_perm_grouped` hold together for `S0`, `D0`, `σ0` -/
example : eval S0 (D0.map fun p => (p.1, permute σ0 p.2)) 4 "rest" =
    .ok (permute σ0 [54, 8, 90, 36]) :=
  simulate_perm_grouped Rat.num S0 D0 _ σ0 (by decide) S0_kinds
    (permuted_data_rel D0 σ0 (by decide)) 4 "rest" _ (by decide +kernel)

end GV.Dag
