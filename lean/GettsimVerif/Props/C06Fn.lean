import GettsimVerif.Lemmas.SimFnLocality
/-
Property C06 for the CONCRETE end-to-end model `GV.Simulate.simulate`
(`compute_taxes_and_transfers` for toy systems): FUNCTION-reform locality.

"Replacing one policy function by a user function changes only columns that depend on that function
through the dependency graph; every other column is bit-identical."

Throughout, `rules'` is `inp.rules` with the rule(s) called `f` replaced, position by position, by
other rules of the same name. `coneNames pr t` (`Lemmas/SimLocality.lean`) is the dependency cone of
the target `t`: all names reachable from `t` through the PARAMETER lists of the functions that are
not overridden by data (data columns are leaves). `pr` is the function set built by
`load_and_check_functions` (`prepare`).

* `prepare_body_irrelevant`, `prepare_body_irrelevant_ok` — `load_and_check_functions` and the data
  conversion only look at the names, parameter names and return annotations of the rules;
* `simulate_rule_locality` — (1) SAME INTERFACE (same parameter names and return annotation; body AND
  rounding key may change): a target whose cone does not contain `f` keeps its column;
* `simulate_rule_pruned`, `simulate_rule_locality_errors` — (3) if `f` is in the cone of NO target, the
  two calls are identical, table or error: a failing replacement that is pruned away cannot make the
  call fail;
* `simulate_cone_agreement`, `simulate_rule_locality_checked` — (2) GENERAL replacements (other
  parameter names, annotation, …): the column of `t` only depends on the functions and converted
  data columns inside its cone; a computable check (`fl_coneCheck`) of this condition;
* `simulate_rule_locality_new_args` — (2) a SYNTACTIC class: same annotation, arbitrary new parameter
  names without group suffix, `f` not a time-unit name: `f ∉ cone` suffices again;
* counterexamples A, B, C (all `decide +kernel`): why (2) needs more than "`f` is not in the cone" —
  a time conversion that changes its source, the annotation of `f` deciding the dtype of an overriding
  data column, a new parameter name creating an automatic group sum that a data column overrides.

NOT PROVED (see the end of the file): the finer syntactic criteria for (2).
-/
namespace GV.Simulate
open GV.Lang (Val)

/-- **`load_and_check_functions` never looks at bodies.** Let `rules'` be `inp.rules` with the rules
called `f` replaced by rules with the same name, the same parameter names and the same return
annotation (body and rounding key are arbitrary). Then for every list of targets `T` the preparation
(`_process_and_check_data`, `load_and_check_functions`, `_convert_data_to_correct_types`, the first
check of `create_dag`) gives the same error, or the same converted data and the same function set up
to the `kind` (body, rounding key) of the entry `f` (`fl_blankPrep f` forgets exactly that). -/
theorem prepare_body_irrelevant (inp : Input) (rules' : List Rule) (f : String) (T : List String)
    (hrel : List.Forall₂ (fun r r' => r.name = r'.name ∧ r.fn.args = r'.fn.args ∧ r.ret = r'.ret ∧
      (r.name ≠ f → r = r')) inp.rules rules') :
    (prepare (rules'.map (ruleFn inp.rounding)) inp.groupSpecs inp.pidSpecs inp.data T).map (fl_blankPrep f) =
      (prepare (inp.rules.map (ruleFn inp.rounding)) inp.groupSpecs inp.pidSpecs inp.data T).map
        (fl_blankPrep f) :=
  (fl_prepare_rel f (ov_blank_rules f inp.rounding hrel) _ _ _ _).symm

/-- The same in elementary terms: if the preparation succeeds for `inp.rules` with result `pr`, it
succeeds for `rules'` with a result `pr'` that has the same data columns, the same converted data,
the same functions in the same order with the same names, parameter names and return annotations,
literally the same entry for every name other than `f`, and hence the same dependency cones. -/
theorem prepare_body_irrelevant_ok (inp : Input) (rules' : List Rule) (f : String) (T : List String)
    (pr : Prep)
    (hrel : List.Forall₂ (fun r r' => r.name = r'.name ∧ r.fn.args = r'.fn.args ∧ r.ret = r'.ret ∧
      (r.name ≠ f → r = r')) inp.rules rules')
    (hpr : prepare (inp.rules.map (ruleFn inp.rounding)) inp.groupSpecs inp.pidSpecs inp.data T = .ok pr) :
    ∃ pr', prepare (rules'.map (ruleFn inp.rounding)) inp.groupSpecs inp.pidSpecs inp.data T = .ok pr' ∧
      pr'.dataCols = pr.dataCols ∧ pr'.data = pr.data ∧
      pr'.fns.map (fun g => (g.name, g.args, g.ann)) = pr.fns.map (fun g => (g.name, g.args, g.ann)) ∧
      (∀ x, x ≠ f → findFn? pr'.fns x = findFn? pr.fns x) ∧
      ∀ t, coneNames pr' t = coneNames pr t := by
  obtain ⟨pr', hpr', hdc, hdata, hfns⟩ := fl_prepare_rel_ok f (ov_blank_rules f inp.rounding hrel) hpr
  refine ⟨pr', hpr', hdc, hdata, ?_, fun x hx => fl_findFn?_of_blank_eq hfns hx,
    fun t => fl_coneNames_of_blank_eq hdc hfns t⟩
  have h := congrArg (List.map fun g : Fn => (g.name, g.args, g.ann)) hfns
  simpa only [List.map_map, Function.comp_def, ov_blank_name, ov_blank_args, ov_blank_ann] using h

/-- **(1) Function-reform locality, same interface.** Replace the rule `f` by a user rule with the
same parameter names and return annotation (another body, possibly another rounding key). If both
calls of `compute_taxes_and_transfers` succeed and `f` is not in the dependency cone of the target
`t`, then `t` gets exactly the same column in both results. (`pr` is the prepared function set of
the ORIGINAL call; by `prepare_body_irrelevant_ok` the cone is the same in the reformed one.) -/
theorem simulate_rule_locality (inp : Input) (rules' : List Rule) (f t : String) (pr : Prep)
    (tbl tbl' : Table)
    (hrel : List.Forall₂ (fun r r' => r.name = r'.name ∧ r.fn.args = r'.fn.args ∧ r.ret = r'.ret ∧
      (r.name ≠ f → r = r')) inp.rules rules')
    (hpr : prepare (inp.rules.map (ruleFn inp.rounding)) inp.groupSpecs inp.pidSpecs inp.data
      (sortDedup inp.targets) = .ok pr)
    (h : simulate inp = .ok tbl) (h' : simulate { inp with rules := rules' } = .ok tbl')
    (ht : t ∈ inp.targets) (hcone : f ∉ coneNames pr t) :
    find? tbl t = find? tbl' t :=
  fl_run_locality_same_interface f t (ov_blank_rules f inp.rounding hrel) hpr h h' ht hcone

/-- **(3) A replaced rule that is pruned away is irrelevant — errors included.** Same replacement as in
`simulate_rule_locality`. If `f` is in the dependency cone of NO target (whenever the preparation
succeeds), the reformed call returns exactly what the original call returns: the same table or the
same exception. In particular a replacement whose body raises cannot make the call fail, because
`dags` prunes the graph to the ancestors of the targets before anything is executed.

Nothing is (or can be) claimed about the columns outside the cone of `f` when `f` IS needed by some
target and one of the two calls fails: the first failing node aborts the whole call
(see `C06FnExamples`, "first failing node"). -/
theorem simulate_rule_pruned (inp : Input) (rules' : List Rule) (f : String)
    (hrel : List.Forall₂ (fun r r' => r.name = r'.name ∧ r.fn.args = r'.fn.args ∧ r.ret = r'.ret ∧
      (r.name ≠ f → r = r')) inp.rules rules')
    (hcone : ∀ pr, prepare (inp.rules.map (ruleFn inp.rounding)) inp.groupSpecs inp.pidSpecs inp.data
      (sortDedup inp.targets) = .ok pr → ∀ t ∈ inp.targets, f ∉ coneNames pr t) :
    simulate { inp with rules := rules' } = simulate inp :=
  fl_run_pruned f (ov_blank_rules f inp.rounding hrel) hcone

/-- **(3) Errors.** Under the hypotheses of `simulate_rule_pruned` (the replaced rule is in the cone of
no target) the reformed call raises an exception if and only if the original call raises it, and it
is the same exception. No such statement holds when `f` is needed by some target: the first failing
node aborts the whole call, so even columns outside the cone of `f` are lost
(`C06FnExamples`, "first failing node"). -/
theorem simulate_rule_locality_errors (inp : Input) (rules' : List Rule) (f : String) (e : Err)
    (hrel : List.Forall₂ (fun r r' => r.name = r'.name ∧ r.fn.args = r'.fn.args ∧ r.ret = r'.ret ∧
      (r.name ≠ f → r = r')) inp.rules rules')
    (hcone : ∀ pr, prepare (inp.rules.map (ruleFn inp.rounding)) inp.groupSpecs inp.pidSpecs inp.data
      (sortDedup inp.targets) = .ok pr → ∀ t ∈ inp.targets, f ∉ coneNames pr t) :
    simulate { inp with rules := rules' } = .error e ↔ simulate inp = .error e := by
  rw [simulate_rule_pruned inp rules' f hrel hcone]

/-- **(2) The column of a target only depends on its cone.** Two calls with the same parameters —
the rules, the aggregation specifications, the data, the other targets and the `rounding` switch may
all differ. If both succeed, and the two prepared function sets have literally the same entry
(`findFn?`) and the same converted data column for every name in the dependency cone of `t`
(computed in the FIRST function set), and the number of rows is the same, then `t` gets the same
column. No hypothesis about which rule was replaced is needed: this is the strongest form of
"replacing a function changes only the columns that depend on it", and it covers replacements that
change the parameter names, the annotation or the rounding key of `f`. -/
theorem simulate_cone_agreement (inp inp' : Input) (t : String) (pr pr' : Prep) (tbl tbl' : Table)
    (hparams : inp'.params = inp.params)
    (hpr : prepare (inp.rules.map (ruleFn inp.rounding)) inp.groupSpecs inp.pidSpecs inp.data
      (sortDedup inp.targets) = .ok pr)
    (hpr' : prepare (inp'.rules.map (ruleFn inp'.rounding)) inp'.groupSpecs inp'.pidSpecs inp'.data
      (sortDedup inp'.targets) = .ok pr')
    (h : simulate inp = .ok tbl) (h' : simulate inp' = .ok tbl')
    (ht : t ∈ inp.targets) (ht' : t ∈ inp'.targets)
    (hagree : ∀ x ∈ coneNames pr t,
      findFn? pr.fns x = findFn? pr'.fns x ∧ find? pr.data x = find? pr'.data x)
    (hrows : pr.data.head?.map (·.2.vals.length) = pr'.data.head?.map (·.2.vals.length)) :
    find? tbl t = find? tbl' t := by
  unfold simulate at h h'
  rw [hparams] at h'
  exact fl_run_value_agree t hpr hpr' h h' ht ht' hagree hrows

/-- **(2) General replacement, computable condition.** `rules'` is `inp.rules` with the rules called
`f` replaced by ARBITRARY rules of the same name (other parameter names, return annotation, rounding
key, body). Then the function sets may differ outside `f` (automatic group sums and time conversions
requested or suppressed by the new parameter names, annotations of aggregations over `f`, the dtype
to which a data column overriding such a function is converted, …). If both calls succeed and the
check `fl_coneCheck f pr pr' t` holds — `f` is not in the cone of `t` in the original function set,
and for every name in that cone the two function sets have entries with the same signature (name,
parameter names, annotation, kind) and the converted data columns coincide — then `t` gets the same
column. -/
theorem simulate_rule_locality_checked (inp : Input) (rules' : List Rule) (f t : String) (pr pr' : Prep)
    (tbl tbl' : Table)
    (hrel : List.Forall₂ (fun r r' => r.name = r'.name ∧ (r.name ≠ f → r = r')) inp.rules rules')
    (hpr : prepare (inp.rules.map (ruleFn inp.rounding)) inp.groupSpecs inp.pidSpecs inp.data
      (sortDedup inp.targets) = .ok pr)
    (hpr' : prepare (rules'.map (ruleFn inp.rounding)) inp.groupSpecs inp.pidSpecs inp.data
      (sortDedup inp.targets) = .ok pr')
    (h : simulate inp = .ok tbl) (h' : simulate { inp with rules := rules' } = .ok tbl')
    (ht : t ∈ inp.targets) (hchk : fl_coneCheck f pr pr' t = true) :
    find? tbl t = find? tbl' t :=
  fl_run_locality_checked f t (fl_fnRel_rules f inp.rounding hrel) hpr hpr' h h' ht hchk

/-- **(2) New parameter names, syntactic condition.** Replace the rule `f` by a user rule with the same
return annotation but ARBITRARY parameter names (and body, rounding key). Suppose that `f` is not the
name of a time-unit column (`<base>_y`, `_m`, `_w`, `_d`, possibly followed by a group suffix — then no
time conversion is derived from `f`, whatever its parameters are) and that no parameter name of the
old and of the new rule carries a group suffix `_hh`, `_fg`, … (then the parameters request no
automatic group sums). Under these conditions `load_and_check_functions` builds the same function
set up to the entry `f`, and: if both calls succeed and `f` is not in the dependency cone of the
target `t` (in the original function set), `t` gets exactly the same column. Counterexamples A and C
below show that neither condition can simply be dropped. -/
theorem simulate_rule_locality_new_args (inp : Input) (rules' : List Rule) (f t : String) (pr : Prep)
    (tbl tbl' : Table)
    (hrel : List.Forall₂ (fun r r' => r.name = r'.name ∧ r.ret = r'.ret ∧ (r.name ≠ f → r = r'))
      inp.rules rules')
    (hf : TimeConv.parseName f = none)
    (hargs : ∀ r ∈ inp.rules, r.name = f → ∀ a ∈ r.fn.args, groupIdOf a = none)
    (hargs' : ∀ r ∈ rules', r.name = f → ∀ a ∈ r.fn.args, groupIdOf a = none)
    (hpr : prepare (inp.rules.map (ruleFn inp.rounding)) inp.groupSpecs inp.pidSpecs inp.data
      (sortDedup inp.targets) = .ok pr)
    (h : simulate inp = .ok tbl) (h' : simulate { inp with rules := rules' } = .ok tbl')
    (ht : t ∈ inp.targets) (hcone : f ∉ coneNames pr t) :
    find? tbl t = find? tbl' t :=
  fl_run_locality_plain_args f t hf (fl_plain_rules f inp.rounding hargs)
    (fl_plain_rules f inp.rounding hargs') (fl_strip_rules f inp.rounding hrel) hpr h h' ht hcone

/-! ### non-vacuity and counterexamples -/

namespace C06FnExamples
open GV.Lang GV.Simulate.Examples

/-- `a(x) = x * 2`, `b(a) = a + 1`, `c(x) = x + 10`; the reform: `a(x) = x * 3` -/
def a : Rule := rule "a" ["x"] (mul (nm "x") (it 2)) (some .float)
def b : Rule := rule "b" ["a"] (add (nm "a") (it 1)) (some .float)
def c : Rule := rule "c" ["x"] (add (nm "x") (it 10)) (some .float)
def a' : Rule := rule "a" ["x"] (mul (nm "x") (it 3)) (some .float)

def sysF : Input :=
  { rules := [a, b, c],
    data := [("p_id", I [0, 1]), ("hh_id", I [0, 0]), ("x", F [1, 5/2]), ("y", F [3, 4])],
    targets := ["b", "c"] }

/-- `hrel` of `prepare_body_irrelevant`, `simulate_rule_locality`, `simulate_rule_pruned` -/
theorem hrelF : List.Forall₂ (fun r r' => r.name = r'.name ∧ r.fn.args = r'.fn.args ∧ r.ret = r'.ret ∧
    (r.name ≠ "a" → r = r')) sysF.rules [a', b, c] :=
  .cons ⟨rfl, rfl, rfl, fun h => absurd rfl h⟩
    (.cons ⟨rfl, rfl, rfl, fun _ => rfl⟩ (.cons ⟨rfl, rfl, rfl, fun _ => rfl⟩ .nil))

/-- `hpr`, `hcone`: the preparation succeeds; the cone of `c` is `c, x` and does not contain `a`,
the cone of `b` is `b, a, x` -/
example : (match prepare (sysF.rules.map (ruleFn sysF.rounding)) sysF.groupSpecs sysF.pidSpecs sysF.data
      (sortDedup sysF.targets) with
    | .ok pr => coneNames pr "c" == ["c", "x"] && coneNames pr "b" == ["b", "a", "x"] &&
        decide ("a" ∉ coneNames pr "c")
    | .error _ => false) = true := by decide +kernel

/-- `h`, `h'`: both calls succeed; `c` is `[11, 12.5]` in both, whereas `b` changes from `[3, 6]` to
`[4, 8.5]` — the conclusion does not hold for every column -/
example : (match simulate sysF, simulate { sysF with rules := [a', b, c] } with
    | .ok t1, .ok t2 =>
        decide ("c" ∈ sysF.targets) &&
        (match find? t1 "c", find? t2 "c" with
         | some [.flt u1, .flt u2], some [.flt w1, .flt w2] => u1 == 11 && u2 == 25/2 && w1 == 11 && w2 == 25/2
         | _, _ => false) &&
        (match find? t1 "b", find? t2 "b" with
         | some [.flt u1, .flt u2], some [.flt w1, .flt w2] => u1 == 3 && u2 == 6 && w1 == 4 && w2 == 17/2
         | _, _ => false)
    | _, _ => false) = true := by decide +kernel

/-- `simulate_rule_locality` applied: whatever the two tables are, `c` is the same in both -/
example (tbl tbl' : Table) (h : simulate sysF = .ok tbl)
    (h' : simulate { sysF with rules := [a', b, c] } = .ok tbl') : find? tbl "c" = find? tbl' "c" := by
  have key : (match prepare (sysF.rules.map (ruleFn sysF.rounding)) sysF.groupSpecs sysF.pidSpecs sysF.data
      (sortDedup sysF.targets) with
    | .ok pr => decide ("a" ∉ coneNames pr "c")
    | .error _ => false) = true := by decide +kernel
  cases hpr : prepare (sysF.rules.map (ruleFn sysF.rounding)) sysF.groupSpecs sysF.pidSpecs sysF.data
      (sortDedup sysF.targets) with
  | error e => rw [hpr] at key; cases key
  | ok pr =>
    rw [hpr] at key
    exact simulate_rule_locality sysF [a', b, c] "a" "c" pr tbl tbl' hrelF hpr h h' (by decide)
      (of_decide_eq_true key)

/-- the conclusion of `prepare_body_irrelevant_ok` on this system: the reformed rules are prepared
successfully, and only the entry `a` differs (it does differ: the bodies are not compared, so we
compare the results of the two nodes in `simulate` above) -/
example : (match prepare (sysF.rules.map (ruleFn sysF.rounding)) sysF.groupSpecs sysF.pidSpecs sysF.data
      (sortDedup sysF.targets),
      prepare ([a', b, c].map (ruleFn sysF.rounding)) sysF.groupSpecs sysF.pidSpecs sysF.data
      (sortDedup sysF.targets) with
    | .ok pr, .ok pr' => pr.fns.map ov_sig == pr'.fns.map ov_sig && pr.data == pr'.data &&
        pr.fns.map (·.name) == ["a", "b", "c", "wthh_id", "fg_id", "bg_id", "eg_id", "ehe_id", "sn_id"]
    | _, _ => false) = true := by decide +kernel

/-! #### (3) errors -/

/-- a replacement of `a` that raises `ZeroDivisionError` in every row -/
def aFail : Rule := rule "a" ["x"] (dv (it 1) (sub (nm "x") (nm "x"))) (some .float)

theorem hrelFail : List.Forall₂ (fun r r' => r.name = r'.name ∧ r.fn.args = r'.fn.args ∧ r.ret = r'.ret ∧
    (r.name ≠ "a" → r = r')) sysF.rules [aFail, b, c] :=
  .cons ⟨rfl, rfl, rfl, fun h => absurd rfl h⟩
    (.cons ⟨rfl, rfl, rfl, fun _ => rfl⟩ (.cons ⟨rfl, rfl, rfl, fun _ => rfl⟩ .nil))

/-- **first failing node**: with targets `b, c` the failing `a` aborts the whole call — the column
`c`, which does not depend on `a`, is not delivered either. Hence `simulate_rule_locality` cannot say
anything when one of the two calls fails. -/
example : (match simulate sysF, simulate { sysF with rules := [aFail, b, c] } with
    | .ok t1, .error e => (find? t1 "c").isSome && e == .zeroDiv
    | _, _ => false) = true := by decide +kernel

/-- **pruning**: with `c` as the only target the failing `a` is outside the cone of every target; the
call succeeds and returns the same table (`simulate_rule_pruned`; here checked by evaluation) -/
example : (match simulate { sysF with targets := ["c"] },
      simulate { sysF with targets := ["c"], rules := [aFail, b, c] } with
    | .ok [(n1, [.flt u1, .flt u2])], .ok [(n2, [.flt w1, .flt w2])] =>
        n1 == "c" && n2 == "c" && u1 == 11 && u2 == 25/2 && w1 == 11 && w2 == 25/2
    | _, _ => false) = true := by decide +kernel

/-- `simulate_rule_pruned` applied to this system -/
example : simulate { sysF with targets := ["c"], rules := [aFail, b, c] } =
    simulate { sysF with targets := ["c"] } := by
  refine simulate_rule_pruned { sysF with targets := ["c"] } [aFail, b, c] "a" hrelFail ?_
  intro pr hpr t ht
  have key : (match prepare (sysF.rules.map (ruleFn sysF.rounding)) sysF.groupSpecs sysF.pidSpecs sysF.data
      (sortDedup ["c"]) with
    | .ok pr => decide (∀ t ∈ ["c"], "a" ∉ coneNames pr t)
    | .error _ => false) = true := by decide +kernel
  have hpr' : prepare (sysF.rules.map (ruleFn sysF.rounding)) sysF.groupSpecs sysF.pidSpecs sysF.data
      (sortDedup ["c"]) = .ok pr := hpr
  rw [hpr'] at key
  exact of_decide_eq_true key t ht

/-! #### (2) a replacement that changes the interface -/

/-- `a(x, y_hh) = x * y_hh` with return annotation `int`: a new parameter name (the automatic group
sum `y_hh` comes into existence) and a new annotation -/
def a2 : Rule := rule "a" ["x", "y_hh"] (mul (nm "x") (nm "y_hh")) (some .int)

theorem hrel2 : List.Forall₂ (fun r r' => r.name = r'.name ∧ (r.name ≠ "a" → r = r')) sysF.rules [a2, b, c] :=
  .cons ⟨rfl, fun h => absurd rfl h⟩ (.cons ⟨rfl, fun _ => rfl⟩ (.cons ⟨rfl, fun _ => rfl⟩ .nil))

/-- the function sets differ (the reformed one contains `y_hh`), the check holds for `c` and fails
for `b`; `c` keeps its column and `b` changes (`[3, 6]` → `[8, 18]`) -/
example : (match prepare (sysF.rules.map (ruleFn sysF.rounding)) sysF.groupSpecs sysF.pidSpecs sysF.data
      (sortDedup sysF.targets),
      prepare ([a2, b, c].map (ruleFn sysF.rounding)) sysF.groupSpecs sysF.pidSpecs sysF.data
      (sortDedup sysF.targets),
      simulate sysF, simulate { sysF with rules := [a2, b, c] } with
    | .ok pr, .ok pr', .ok t1, .ok t2 =>
        !hasFn pr.fns "y_hh" && hasFn pr'.fns "y_hh" &&
        fl_coneCheck "a" pr pr' "c" && !fl_coneCheck "a" pr pr' "b" &&
        (match find? t1 "c", find? t2 "c" with
         | some [.flt u1, .flt u2], some [.flt w1, .flt w2] => u1 == 11 && u2 == 25/2 && w1 == 11 && w2 == 25/2
         | _, _ => false) &&
        (match find? t1 "b", find? t2 "b" with
         | some [.flt u1, .flt u2], some [.flt w1, .flt w2] => u1 == 3 && u2 == 6 && w1 == 8 && w2 == 18
         | _, _ => false)
    | _, _, _, _ => false) = true := by decide +kernel

/-- `simulate_rule_locality_checked` applied -/
example (tbl tbl' : Table) (h : simulate sysF = .ok tbl)
    (h' : simulate { sysF with rules := [a2, b, c] } = .ok tbl') : find? tbl "c" = find? tbl' "c" := by
  have key : (match prepare (sysF.rules.map (ruleFn sysF.rounding)) sysF.groupSpecs sysF.pidSpecs sysF.data
      (sortDedup sysF.targets),
      prepare ([a2, b, c].map (ruleFn sysF.rounding)) sysF.groupSpecs sysF.pidSpecs sysF.data
      (sortDedup sysF.targets) with
    | .ok pr, .ok pr' => fl_coneCheck "a" pr pr' "c"
    | _, _ => false) = true := by decide +kernel
  cases hpr : prepare (sysF.rules.map (ruleFn sysF.rounding)) sysF.groupSpecs sysF.pidSpecs sysF.data
      (sortDedup sysF.targets) with
  | error e => rw [hpr] at key; cases key
  | ok pr =>
    cases hpr' : prepare ([a2, b, c].map (ruleFn sysF.rounding)) sysF.groupSpecs sysF.pidSpecs sysF.data
        (sortDedup sysF.targets) with
    | error e => rw [hpr, hpr'] at key; cases key
    | ok pr' =>
      rw [hpr, hpr'] at key
      exact simulate_rule_locality_checked sysF [a2, b, c] "a" "c" pr pr' tbl tbl' hrel2 hpr hpr' h h'
        (by decide) key

/-- `simulate_cone_agreement` applied directly (its hypotheses `hagree`, `hrows` are discharged with
`prepare_body_irrelevant_ok` for the reform `a ↦ a'`) -/
example (tbl tbl' : Table) (h : simulate sysF = .ok tbl)
    (h' : simulate { sysF with rules := [a', b, c] } = .ok tbl') : find? tbl "c" = find? tbl' "c" := by
  have key : (match prepare (sysF.rules.map (ruleFn sysF.rounding)) sysF.groupSpecs sysF.pidSpecs sysF.data
      (sortDedup sysF.targets) with
    | .ok pr => decide ("a" ∉ coneNames pr "c")
    | .error _ => false) = true := by decide +kernel
  cases hpr : prepare (sysF.rules.map (ruleFn sysF.rounding)) sysF.groupSpecs sysF.pidSpecs sysF.data
      (sortDedup sysF.targets) with
  | error e => rw [hpr] at key; cases key
  | ok pr =>
    rw [hpr] at key
    obtain ⟨pr', hpr', _, hdata, _, hfind, _⟩ :=
      prepare_body_irrelevant_ok sysF [a', b, c] "a" _ pr hrelF hpr
    refine simulate_cone_agreement sysF { sysF with rules := [a', b, c] } "c" pr pr' tbl tbl' rfl hpr hpr'
      h h' (by decide) (by decide) ?_ (by rw [hdata])
    intro x hx
    refine ⟨(hfind x ?_).symm, by rw [hdata]⟩
    rintro rfl
    exact of_decide_eq_true key hx

/-! #### (2) new parameter names without group suffix: `simulate_rule_locality_new_args` -/

/-- `a(x, y) = x * y`: the new parameter `y` is a data column without group suffix -/
def a4 : Rule := rule "a" ["x", "y"] (mul (nm "x") (nm "y")) (some .float)

theorem hrel4 : List.Forall₂ (fun r r' => r.name = r'.name ∧ r.ret = r'.ret ∧ (r.name ≠ "a" → r = r'))
    sysF.rules [a4, b, c] :=
  .cons ⟨rfl, rfl, fun h => absurd rfl h⟩ (.cons ⟨rfl, rfl, fun _ => rfl⟩ (.cons ⟨rfl, rfl, fun _ => rfl⟩ .nil))

/-- the side conditions: `a` is not a time-unit name, no parameter of `a`/`a4` has a group suffix -/
example : TimeConv.parseName "a" = none ∧
    (∀ r ∈ sysF.rules, r.name = "a" → ∀ p ∈ r.fn.args, groupIdOf p = none) ∧
    (∀ r ∈ [a4, b, c], r.name = "a" → ∀ p ∈ r.fn.args, groupIdOf p = none) := by decide +kernel

/-- both calls succeed; `c` is unchanged, `b` changes from `[3, 6]` to `[4, 11]` -/
example : (match simulate sysF, simulate { sysF with rules := [a4, b, c] } with
    | .ok t1, .ok t2 =>
        (match find? t1 "c", find? t2 "c" with
         | some [.flt u1, .flt u2], some [.flt w1, .flt w2] => u1 == 11 && u2 == 25/2 && w1 == 11 && w2 == 25/2
         | _, _ => false) &&
        (match find? t1 "b", find? t2 "b" with
         | some [.flt u1, .flt u2], some [.flt w1, .flt w2] => u1 == 3 && u2 == 6 && w1 == 4 && w2 == 11
         | _, _ => false)
    | _, _ => false) = true := by decide +kernel

example (tbl tbl' : Table) (h : simulate sysF = .ok tbl)
    (h' : simulate { sysF with rules := [a4, b, c] } = .ok tbl') : find? tbl "c" = find? tbl' "c" := by
  have key : (match prepare (sysF.rules.map (ruleFn sysF.rounding)) sysF.groupSpecs sysF.pidSpecs sysF.data
      (sortDedup sysF.targets) with
    | .ok pr => decide ("a" ∉ coneNames pr "c")
    | .error _ => false) = true := by decide +kernel
  cases hpr : prepare (sysF.rules.map (ruleFn sysF.rounding)) sysF.groupSpecs sysF.pidSpecs sysF.data
      (sortDedup sysF.targets) with
  | error e => rw [hpr] at key; cases key
  | ok pr =>
    rw [hpr] at key
    exact simulate_rule_locality_new_args sysF [a4, b, c] "a" "c" pr tbl tbl' hrel4 (by decide +kernel)
      (by decide +kernel) (by decide +kernel) hpr h h' (by decide) (of_decide_eq_true key)

/-! #### why (2) needs more than "`f` is not in the cone of `t`"

REQUESTED (false as stated, in both readings): "`rules'` is `inp.rules` with the rule `f` replaced by
an arbitrary rule of the same name; both calls succeed; `f` is not in the dependency cone of `t`
⟹ the column of `t` is the same."

Counterexample A (the cone must be looked at in BOTH function sets). Rules `s_m(x) = x`,
`s_y(x) = 100 x`, target `s_w`. `create_time_conversion_functions` derives `s_w` from both rules and
the LAST one wins (self-test S17c, confirmed on the real code), so `s_w = s_y / 52.18`. Replace `s_y`
by `s_y(s_w) = 100 s_w`: a derived function is not created when its name is a parameter of the source
function, so now `s_w` is derived from `s_m`. In the REFORMED function set the cone of `s_w` is
`s_w, s_m, x` and does not contain `s_y` — but the column of `s_w` changes (`100 x` per year
versus `x` per month, both converted to weeks).
Reading the example backwards (original `s_y(s_w)`, reform `s_y(x)`), `s_y` is not in the cone of
`s_w` in the ORIGINAL function set either. `fl_coneCheck` rejects both directions (the entry `s_w` has
another signature). -/
def s_m : Rule := rule "s_m" ["x"] (nm "x") (some .float)
def s_y : Rule := rule "s_y" ["x"] (mul (nm "x") (it 100)) (some .float)
def s_y' : Rule := rule "s_y" ["s_w"] (mul (nm "s_w") (it 100)) (some .float)
def sysS : Input := { sysF with rules := [s_m, s_y], targets := ["s_w"] }

example : List.Forall₂ (fun r r' => r.name = r'.name ∧ (r.name ≠ "s_y" → r = r')) sysS.rules [s_m, s_y'] :=
  .cons ⟨rfl, fun _ => rfl⟩ (.cons ⟨rfl, fun h => absurd rfl h⟩ .nil)

example : (match prepare (sysS.rules.map (ruleFn sysS.rounding)) sysS.groupSpecs sysS.pidSpecs sysS.data
      (sortDedup sysS.targets),
      prepare ([s_m, s_y'].map (ruleFn sysS.rounding)) sysS.groupSpecs sysS.pidSpecs sysS.data
      (sortDedup sysS.targets),
      simulate sysS, simulate { sysS with rules := [s_m, s_y'] } with
    | .ok pr, .ok pr', .ok [(_, [.flt u1, .flt u2])], .ok [(_, [.flt w1, .flt w2])] =>
        coneNames pr "s_w" == ["s_w", "s_y", "x"] &&
        coneNames pr' "s_w" == ["s_w", "s_m", "x"] && decide ("s_y" ∉ coneNames pr' "s_w") &&
        u1 != w1 && u2 != w2 &&
        !fl_coneCheck "s_y" pr pr' "s_w" && !fl_coneCheck "s_y" pr' pr "s_w"
    | _, _, _, _ => false) = true := by decide +kernel

/-! Counterexample B (the DATA conversion channel; also shows that "same return annotation" cannot be
dropped from `simulate_rule_locality`). Rules `use2(flag_hh) = flag_hh` (no annotation) and
`flag(x) -> bool`, and a data column `flag_hh` (floats `1.0, 1.0`) that overrides the automatic group
sum `flag_hh`. The overriding column is converted to the annotation of the overridden function — the
sum of a `bool` function is `int`. Replace `flag` by a rule with the SAME parameter names and body but
the return annotation `float`: the column `flag_hh` now stays `float`, and the target `use2`, whose
cone is `use2, flag_hh` in both function sets (no `flag` in it, and the entry `use2` is literally the
same), changes its dtype from `int` to `float` (self-test S16e, confirmed on the real code, is the
first half). So the hypothesis "the converted data agree on the cone" of `simulate_cone_agreement`
cannot be dropped; `fl_coneCheck` rejects the example because of it. -/
def use2 : Rule := rule "use2" ["flag_hh"] (nm "flag_hh") none
def flagB : Rule := rule "flag" ["x"] (gt (nm "x") (it 2)) (some .bool)
def flagF : Rule := rule "flag" ["x"] (gt (nm "x") (it 2)) (some .float)
def sysA : Input :=
  { rules := [use2, flagB],
    data := [("p_id", I [0, 1]), ("hh_id", I [0, 0]), ("x", F [1, 5/2]), ("flag_hh", F [1, 1])],
    targets := ["use2"] }

example : List.Forall₂ (fun r r' => r.name = r'.name ∧ r.fn.args = r'.fn.args ∧ (r.name ≠ "flag" → r = r'))
    sysA.rules [use2, flagF] :=
  .cons ⟨rfl, rfl, fun _ => rfl⟩ (.cons ⟨rfl, rfl, fun h => absurd rfl h⟩ .nil)

example : (match prepare (sysA.rules.map (ruleFn sysA.rounding)) sysA.groupSpecs sysA.pidSpecs sysA.data
      (sortDedup sysA.targets),
      prepare ([use2, flagF].map (ruleFn sysA.rounding)) sysA.groupSpecs sysA.pidSpecs sysA.data
      (sortDedup sysA.targets),
      simulate sysA, simulate { sysA with rules := [use2, flagF] } with
    | .ok pr, .ok pr', .ok [(_, [.int u1, .int u2])], .ok [(_, [.flt w1, .flt w2])] =>
        coneNames pr "use2" == ["use2", "flag_hh"] && coneNames pr' "use2" == ["use2", "flag_hh"] &&
        decide ("flag" ∉ coneNames pr "use2") &&
        ((coneNames pr "use2").all fun x =>
          decide ((findFn? pr.fns x).map ov_sig = (findFn? pr'.fns x).map ov_sig)) &&
        decide (find? pr.data "flag_hh" ≠ find? pr'.data "flag_hh") &&
        u1 == 1 && u2 == 1 && w1 == 1 && w2 == 1 &&
        !fl_coneCheck "flag" pr pr' "use2"
    | _, _, _, _ => false) = true := by decide +kernel

/-! Counterexample C (a NEW PARAMETER NAME changes a column outside both cones; the return annotation
is kept). Rules `a(x)` and `y(x) -> bool`, data columns `y_hh` (floats `1.0, 1.0`) and `sn_id`, target
`y_hh_sn` — the automatic sum of the DATA column `y_hh` over `sn_id` (`remove_group_suffix("y_hh_sn")`
is `y_hh`), a `float` column. Nothing refers to `a`. Now give `a` the additional parameter `y_hh`
(`a(x, y_hh)`, same annotation): `y_hh` becomes a parameter name of a function, `y` is a function, so
`_create_aggregate_by_group_functions` creates the automatic group sum `y_hh = sum(y)` with the
annotation `int` (sum of a `bool` function); it is overridden by the data column `y_hh`, which is
therefore CONVERTED to `int`; and the target `y_hh_sn` becomes an `int` column. In both function sets
the cone of `y_hh_sn` is `y_hh_sn, y_hh, sn_id` — no `a` in it, the function entries on the cone are
literally the same — yet the column changes (`1.0` → `1`). So for replacements with new parameter
names the condition on the converted data is indispensable even when the annotation is kept, and
"the new parameters are data columns" is NOT a sufficient syntactic condition. `fl_coneCheck` rejects
the example. -/
def yB : Rule := rule "y" ["x"] (gt (nm "x") (it 2)) (some .bool)
def a3 : Rule := rule "a" ["x", "y_hh"] (mul (nm "x") (nm "y_hh")) (some .float)
def sysC : Input :=
  { rules := [a, yB],
    data := [("p_id", I [0, 1]), ("hh_id", I [0, 0]), ("sn_id", I [0, 1]), ("x", F [1, 5/2]),
             ("y_hh", F [1, 1])],
    targets := ["y_hh_sn"] }

example : List.Forall₂ (fun r r' => r.name = r'.name ∧ r.ret = r'.ret ∧ (r.name ≠ "a" → r = r'))
    sysC.rules [a3, yB] :=
  .cons ⟨rfl, rfl, fun h => absurd rfl h⟩ (.cons ⟨rfl, rfl, fun _ => rfl⟩ .nil)

example : (match prepare (sysC.rules.map (ruleFn sysC.rounding)) sysC.groupSpecs sysC.pidSpecs sysC.data
      (sortDedup sysC.targets),
      prepare ([a3, yB].map (ruleFn sysC.rounding)) sysC.groupSpecs sysC.pidSpecs sysC.data
      (sortDedup sysC.targets),
      simulate sysC, simulate { sysC with rules := [a3, yB] } with
    | .ok pr, .ok pr', .ok [(_, [.flt u1, .flt u2])], .ok [(_, [.int w1, .int w2])] =>
        coneNames pr "y_hh_sn" == ["y_hh_sn", "y_hh", "sn_id"] &&
        coneNames pr' "y_hh_sn" == ["y_hh_sn", "y_hh", "sn_id"] &&
        ((coneNames pr "y_hh_sn").all fun x =>
          decide ((findFn? pr.fns x).map ov_sig = (findFn? pr'.fns x).map ov_sig)) &&
        decide (find? pr.data "y_hh" ≠ find? pr'.data "y_hh") &&
        u1 == 1 && u2 == 1 && w1 == 1 && w2 == 1 &&
        !fl_coneCheck "a" pr pr' "y_hh_sn"
    | _, _, _, _ => false) = true := by decide +kernel

/-! NOT PROVED: the finer syntactic criteria for replacements that change the parameter NAMES.
`simulate_rule_locality_new_args` covers rules whose name is not a time-unit name and whose old and new
parameter names carry no group suffix. The analysis of `load_and_check_functions` (and the three
counterexamples) suggest that the following weaker conditions on the old rule `r` and the new rule
`r'` called `f` are still sufficient for "both calls succeed and `f` is not in the cone of `t` ⟹ same
column of `t`":
(S1) same return annotation (Counterexample B);
(S2) no name that `create_time_conversion_functions` derives from `f` is a parameter of `r` or `r'`
     (Counterexample A) — instead of "`f` is not a time-unit name";
(S3) every group-suffixed parameter name that only one of `r`, `r'` has is also a parameter of another
     rule, a target or the source column of an aggregation specification (then the set of automatic
     group sums does not change), or at least does not make an automatic sum that a data column
     overrides (Counterexample C) — instead of "no group suffix".
The proof needs the analogue of `buildFunctions_targets` (`Lemmas/SimTargets.lean`) for a change of
one parameter list instead of the targets (the order of the dictionary of aggregation functions
changes), and a characterisation of `TimeConv.create`. Also not proved: the errors-included identity
`simulate_rule_pruned` for replacements that change the parameter names. What IS proved for these
cases is the semantic statement `simulate_cone_agreement` and its computable instance
`simulate_rule_locality_checked`, which decide every concrete replacement. -/

end C06FnExamples

end GV.Simulate
