import GettsimVerif.Lemmas.Groupings
/-
C12: partition specifications of the group-id constructors of `_gettsim/groupings.py`.
-/
namespace GV.Groupings

/-! ### eg_id / ehe_id -/

/-- The result of `pairId` (eg_id / ehe_id) has the length of the input columns. -/
theorem pairId_length (pid partner : List Int) (h : partner.length = pid.length) :
    (pairId pid partner).length = pid.length := by
  rw [pairId_length', h]; omega

/-- Partition specification of eg_id / ehe_id: under validity two rows share an id iff they are
the same row or partners. -/
theorem pairId_spec {pid partner : List Int} (hv : ValidPairs pid partner) {i j : Nat}
    (hi : i < pid.length) (hj : j < pid.length) :
    (pairId pid partner)[i]'(by rw [pairId_length _ _ hv.len]; exact hi) =
      (pairId pid partner)[j]'(by rw [pairId_length _ _ hv.len]; exact hj) ↔
    (i = j ∨ partner[i]'(hv.len ▸ hi) = pid[j]) :=
  pairId_spec_idx hv hi hj

/-- All eg/ehe ids lie in `[0, n)` (no validity needed). -/
theorem pairId_ids_bounded (pid partner : List Int) :
    ∀ g ∈ pairId pid partner, 0 ≤ g ∧ g < pid.length := by
  intro g hg
  have := pairId_bounded_aux pid partner g hg
  rw [pairId_length'] at this
  omega

/-- non-vacuity: sparse unsorted ids, one couple (70,3), two singles -/
example : ValidPairs [70, 12, 3, 41] [3, -1, 70, -1] :=
  ⟨by decide, by decide, by decide, by decide, by decide, by decide⟩

example : pairId [70, 12, 3, 41] [3, -1, 70, -1] = [0, 1, 0, 2] := by decide

/-! ### wthh_id -/

/-- The result of `wthhId` has the length of the input columns. -/
theorem wthhId_length (hh : List Int) (v1 v2 : List Bool) (h1 : v1.length = hh.length)
    (h2 : v2.length = hh.length) : (wthhId hh v1 v2).length = hh.length := by
  rw [wthhId_length']; omega

/-- `wthh_id = hh_id * 100 + flag`. -/
theorem wthhId_spec {hh : List Int} {v1 v2 : List Bool} (h1 : v1.length = hh.length)
    (h2 : v2.length = hh.length) {i : Nat} (hi : i < hh.length) :
    (wthhId hh v1 v2)[i]'(by rw [wthhId_length _ _ _ h1 h2]; exact hi) =
      hh[i] * 100 + (if (v1[i] || v2[i]) then 1 else 0) :=
  wthhId_getElem _

/-- Equal wthh ids imply equal household ids. -/
theorem wthh_nests_in_hh {hh : List Int} {v1 v2 : List Bool} (h1 : v1.length = hh.length)
    (h2 : v2.length = hh.length) {i j : Nat} (hi : i < hh.length) (hj : j < hh.length)
    (h : (wthhId hh v1 v2)[i]'(by rw [wthhId_length _ _ _ h1 h2]; exact hi) =
      (wthhId hh v1 v2)[j]'(by rw [wthhId_length _ _ _ h1 h2]; exact hj)) :
    hh[i] = hh[j] := by
  rw [wthhId_spec h1 h2 hi, wthhId_spec h1 h2 hj] at h
  split at h <;> split at h <;> omega

/-- Different households never share a wthh id. -/
theorem wthh_no_collision {hh : List Int} {v1 v2 : List Bool} (h1 : v1.length = hh.length)
    (h2 : v2.length = hh.length) {i j : Nat} (hi : i < hh.length) (hj : j < hh.length)
    (h : hh[i] ≠ hh[j]) :
    (wthhId hh v1 v2)[i]'(by rw [wthhId_length _ _ _ h1 h2]; exact hi) ≠
      (wthhId hh v1 v2)[j]'(by rw [wthhId_length _ _ _ h1 h2]; exact hj) :=
  fun e => h (wthh_nests_in_hh h1 h2 hi hj e)

example : wthhId [7, 7, 3, -2] [true, false, false, false] [false, false, true, false]
    = [701, 700, 301, -200] := by decide

/-! ### bg_id -/

/-- The result of `bgId` has the length of the input columns. -/
theorem bgId_length (fg alter : List Int) (eigen : List Bool) (h1 : alter.length = fg.length)
    (h2 : eigen.length = fg.length) : (bgId fg alter eigen).length = fg.length := by
  rw [bgId_length']; omega

/-- `bg_id = fg_id*100` for everybody but self-sufficient children under 25; those get
`fg_id*100 + k`, `k` = their rank among the qualifying rows of the family unit (`bgRank`). -/
theorem bgId_spec {fg alter : List Int} {eigen : List Bool} (h1 : alter.length = fg.length)
    (h2 : eigen.length = fg.length) {i : Nat} (hi : i < fg.length) :
    (bgId fg alter eigen)[i]'(by rw [bgId_length _ _ _ h1 h2]; exact hi) =
      if alter[i] < 25 ∧ eigen[i] = true then fg[i] * 100 + bgRank fg alter eigen i
      else fg[i] * 100 := by
  rw [bgId_getElem_rows]
  simp [bgVal, bgQual, bgRank, hi]

/-- the rank of a qualifying row is at least 1 -/
theorem bgRank_pos {fg alter : List Int} {eigen : List Bool} (h1 : alter.length = fg.length)
    (h2 : eigen.length = fg.length) {i : Nat} (hi : i < fg.length)
    (hq : alter[i] < 25 ∧ eigen[i] = true) : 1 ≤ bgRank fg alter eigen i := by
  have hl : i < (fg.zip (alter.zip eigen)).length := by simp; omega
  have := bgRankRows_pos hl (by simp [bgQual, hq])
  simp only [List.getElem_zip] at this
  simp only [bgRank, hi, getElem?_pos, Option.getD_some]
  omega

/-- If every family unit has fewer than 100 self-sufficient children, equal bg ids imply equal
fg ids. -/
theorem bg_nests_in_fg {fg alter : List Int} {eigen : List Bool} (h1 : alter.length = fg.length)
    (h2 : eigen.length = fg.length) (hlt : ∀ i, i < fg.length → bgRank fg alter eigen i < 100)
    {i j : Nat} (hi : i < fg.length) (hj : j < fg.length)
    (h : (bgId fg alter eigen)[i]'(by rw [bgId_length _ _ _ h1 h2]; exact hi) =
      (bgId fg alter eigen)[j]'(by rw [bgId_length _ _ _ h1 h2]; exact hj)) :
    fg[i] = fg[j] := by
  rw [bgId_spec h1 h2 hi, bgId_spec h1 h2 hj] at h
  have := hlt i hi
  have := hlt j hj
  split at h <;> split at h <;> omega

/-- Two distinct self-sufficient children never share a bg id (fewer than 100 per fg). -/
theorem bg_self_sufficient_alone {fg alter : List Int} {eigen : List Bool}
    (h1 : alter.length = fg.length) (h2 : eigen.length = fg.length)
    (hlt : ∀ i, i < fg.length → bgRank fg alter eigen i < 100)
    {i j : Nat} (hi : i < fg.length) (hj : j < fg.length) (hij : i ≠ j)
    (hqj : alter[j] < 25 ∧ eigen[j] = true) :
    (bgId fg alter eigen)[i]'(by rw [bgId_length _ _ _ h1 h2]; exact hi) ≠
      (bgId fg alter eigen)[j]'(by rw [bgId_length _ _ _ h1 h2]; exact hj) := by
  intro h
  have hfg := bg_nests_in_fg h1 h2 hlt hi hj h
  rw [bgId_spec h1 h2 hi, bgId_spec h1 h2 hj, if_pos hqj] at h
  have hpj := bgRank_pos h1 h2 hj hqj
  split at h
  · rename_i hqi
    have hli : i < (fg.zip (alter.zip eigen)).length := by simp; omega
    have hlj : j < (fg.zip (alter.zip eigen)).length := by simp; omega
    have e : bgRank fg alter eigen i = bgRank fg alter eigen j := by omega
    simp only [bgRank, hi, hj, getElem?_pos, Option.getD_some] at e
    rcases Nat.lt_or_gt_of_ne hij with hlt' | hlt'
    · have := bgRankRows_lt hlt' hlj (by simp [bgQual, hqj])
      simp only [List.getElem_zip] at this
      rw [hfg] at e; omega
    · have := bgRankRows_lt hlt' hli (by simp [bgQual, hqi])
      simp only [List.getElem_zip] at this
      rw [← hfg] at e; omega
  · omega

/-- All non-qualifying rows of one family unit share the id `fg*100`. -/
theorem bg_rest_together {fg alter : List Int} {eigen : List Bool}
    (h1 : alter.length = fg.length) (h2 : eigen.length = fg.length)
    {i j : Nat} (hi : i < fg.length) (hj : j < fg.length)
    (hqi : ¬ (alter[i] < 25 ∧ eigen[i] = true)) (hqj : ¬ (alter[j] < 25 ∧ eigen[j] = true))
    (hfg : fg[i] = fg[j]) :
    (bgId fg alter eigen)[i]'(by rw [bgId_length _ _ _ h1 h2]; exact hi) =
      (bgId fg alter eigen)[j]'(by rw [bgId_length _ _ _ h1 h2]; exact hj) := by
  rw [bgId_spec h1 h2 hi, bgId_spec h1 h2 hj, if_neg hqi, if_neg hqj, hfg]

/-- Collision witness: with 100 self-sufficient children in family unit 0 the 100th child gets
bg id 100, which is the base id of family unit 1. -/
theorem bg_collision_at_100 :
    let fg := List.replicate 100 0 ++ [1]
    let alter := List.replicate 100 10 ++ [40]
    let eigen := List.replicate 100 true ++ [false]
    (bgId fg alter eigen)[99]? = some 100 ∧ (bgId fg alter eigen)[100]? = some 100 ∧
      fg[99]? = some 0 ∧ fg[100]? = some 1 := by
  decide +kernel

/-- non-vacuity of the `< 100` hypothesis -/
example : ∀ i, i < [40, 7, 40, 40, 7].length →
    bgRank [40, 7, 40, 40, 7] [30, 3, 10, 12, 50] [false, true, true, true, true] i < 100 := by
  decide

example : bgId [40, 7, 40, 40, 7] [30, 3, 10, 12, 50] [false, true, true, true, true]
    = [4000, 701, 4001, 4002, 700] := by decide

/-! ### fg_id: order dependence of the shipped algorithm (finding 6.3) -/

/- `fgA`, `fgB`, `fgC` (Lemmas): patchwork family — A (10) and B (20) partners, C (30, aged 5) child
of B only, one household. -/

/-- The shipped algorithm (`repaired = false`) is row-order dependent: scanning A,B,C yields the
partition {A,B},{C}; scanning B,A,C yields {A,B,C}. -/
theorem fg_order_dependent :
    fgId false [fgA, fgB, fgC] = .ok [0, 0, 1] ∧ fgId false [fgB, fgA, fgC] = .ok [0, 0, 0] := by
  decide

/-- With the repair (head also visits the partner's children) both orders give one family unit. -/
theorem fg_repaired_order_independent_witness :
    fgId true [fgA, fgB, fgC] = .ok [0, 0, 0] ∧ fgId true [fgB, fgA, fgC] = .ok [0, 0, 0] := by
  decide

/-! ### fg_id: specification of the repaired algorithm -/

/-- `fgId` never raises (no KeyError) and returns a column of the input length — for both
variants and without any validity assumption. -/
theorem fgId_total (repaired : Bool) (ps : List Person) :
    ∃ res, fgId repaired ps = .ok res ∧ res.length = ps.length :=
  fgId_total_aux repaired ps

/-- Partners get the same fg id, provided dependent children have no partner (both variants). -/
theorem fg_partner_same (repaired : Bool) {ps : List Person} (hv : ValidPersons ps)
    (h7 : ∀ c ∈ ps, DependentChild ps c → c.partner < 0) :
    ∃ res, fgId repaired ps = .ok res ∧ ∃ hl : res.length = ps.length,
      ∀ i (hi : i < ps.length) j (hj : j < ps.length),
        ps[i].partner = ps[j].pid → res[i] = res[j] := by
  obtain ⟨s, hs, hc⟩ := fg_partner_same_aux repaired hv h7
  refine ⟨_, hs, by simp, ?_⟩
  intro i hi j hj h
  simp only [List.getElem_map]
  rw [hc _ (List.getElem_mem hi) _ (List.getElem_mem hj) h]

/-- The hypothesis of `fg_partner_same` is needed: a partnered person who is also a "dependent
child" of a co-resident parent scanned later is pulled out of its couple. -/
theorem fg_partner_split_witness :
    fgId true
      [{ pid := 2, hh := 1, alter := 20, partner := 3, e1 := 1, e2 := -1 },
       { pid := 3, hh := 1, alter := 22, partner := 2, e1 := -1, e2 := -1 },
       { pid := 1, hh := 1, alter := 50, partner := -1, e1 := -1, e2 := -1 }] = .ok [1, 0, 1] := by
  decide

/-- Characterisation of the repaired fg_id: for a valid table in which dependent children have no
partner and all co-resident parents of a dependent child form one couple (`ValidDependents`), two
persons share an fg id iff they are the same person, partners, one is a dependent child of the
other or of the other's partner, or both are dependent children of the same couple (`FgSame`).
In particular the induced partition does not depend on the row order. -/
theorem fg_spec {ps : List Person} (hv : ValidPersons ps) (h7 : ValidDependents ps) :
    ∃ res, fgId true ps = .ok res ∧ ∃ hl : res.length = ps.length,
      ∀ i (hi : i < ps.length) j (hj : j < ps.length),
        res[i] = res[j] ↔ FgSame ps ps[i] ps[j] :=
  fg_spec_aux hv h7

/-- Row-order independence of the repaired algorithm: for any permutation of a valid table the
induced partition of the persons is the same. -/
theorem fg_repaired_order_independent {ps ps' : List Person} (hp : ps.Perm ps')
    (hv : ValidPersons ps) (h7 : ValidDependents ps) :
    ∃ res res', fgId true ps = .ok res ∧ fgId true ps' = .ok res' ∧
      ∃ (hl : res.length = ps.length) (hl' : res'.length = ps'.length),
      ∀ i (hi : i < ps.length) j (hj : j < ps.length) i' (hi' : i' < ps'.length)
        j' (hj' : j' < ps'.length), ps[i] = ps'[i'] → ps[j] = ps'[j'] →
        (res[i] = res[j] ↔ res'[i'] = res'[j']) := by
  obtain ⟨res, hres, hl, h⟩ := fg_spec hv h7
  obtain ⟨res', hres', hl', h'⟩ := fg_spec (hv.perm hp) (h7.perm hp)
  refine ⟨res, res', hres, hres', hl, hl', ?_⟩
  intro i hi j hj i' hi' j' hj' e1 e2
  rw [h i hi j hj, h' i' hi' j' hj', e1, e2]
  exact fgSame_congr (fun r => hp.mem_iff) _ _

/-- A dependent child gets the fg id of its co-resident parent. -/
theorem fg_child_of_parent {ps : List Person} (hv : ValidPersons ps) (h7 : ValidDependents ps) :
    ∃ res, fgId true ps = .ok res ∧ ∃ hl : res.length = ps.length,
      ∀ i (hi : i < ps.length) j (hj : j < ps.length),
        ChildOf ps ps[i] ps[j] → res[i] = res[j] := by
  obtain ⟨res, hres, hl, h⟩ := fg_spec hv h7
  refine ⟨res, hres, hl, fun i hi j hj hc => (h i hi j hj).mpr ?_⟩
  exact Or.inr (Or.inl ⟨ps[j], List.getElem_mem hj, hc, Or.inl rfl⟩)

/-- Everybody who is not a dependent child gets the id of the own couple / single unit: two such
persons share an fg id iff they are the same row or partners. -/
theorem fg_nondependent {ps : List Person} (hv : ValidPersons ps) (h7 : ValidDependents ps) :
    ∃ res, fgId true ps = .ok res ∧ ∃ hl : res.length = ps.length,
      ∀ i (hi : i < ps.length) j (hj : j < ps.length),
        ¬ DependentChild ps ps[i] → ¬ DependentChild ps ps[j] →
        (res[i] = res[j] ↔ (i = j ∨ ps[i].partner = ps[j].pid)) := by
  obtain ⟨res, hres, hl, h⟩ := fg_spec hv h7
  refine ⟨res, hres, hl, fun i hi j hj hni hnj => ?_⟩
  rw [h i hi j hj]
  have hij : ps[i] = ps[j] ↔ i = j := by
    constructor
    · intro e
      have := congrArg Person.pid e
      have h2 : (ps.map (·.pid))[i]'(by simpa using hi) = (ps.map (·.pid))[j]'(by simpa using hj) := by
        simpa using this
      exact (List.getElem_inj hv.nodup).mp h2
    · rintro rfl; rfl
  constructor
  · rintro (h | ⟨_, _, hc, _⟩ | ⟨_, _, hc, _⟩ | ⟨_, _, _, _, hc, _⟩)
    · rcases h with h | h
      · exact Or.inl (hij.mp h)
      · exact Or.inr h
    · exact absurd hc.1 hni
    · exact absurd hc.1 hnj
    · exact absurd hc.1 hni
  · rintro (h | h)
    · exact Or.inl (Or.inl (hij.mpr h))
    · exact Or.inl (Or.inr h)

/- non-vacuity on `fgExample` (Lemmas): sparse unsorted ids.  Household 1: couple 70/3, child 41
(aged 5) of 3 only, child 12 of both; household 2: single 5 with adult child 9. -/
example : ValidPersons fgExample ∧ ValidDependents fgExample :=
  ⟨⟨by decide, by decide, by decide, by decide⟩, ⟨by decide, by decide⟩⟩

example : fgId true fgExample = .ok [1, 1, 1, 1, 2, 3] := by decide

/-! ### sn_id -/

/-- If spouses agree on the joint-assessment flag, `snId` succeeds and two rows share an sn id
iff they are the same row or jointly assessed spouses. -/
theorem snId_spec {pid partner : List Int} {gv : List Bool} (hv : ValidPairs pid partner)
    (len2 : gv.length = pid.length) (hag : SpousesAgree pid partner gv) :
    ∃ res, snId pid partner gv = .ok res ∧ ∃ hlen : res.length = pid.length,
      ∀ i (hi : i < pid.length) j (hj : j < pid.length),
        res[i] = res[j] ↔
          (i = j ∨ (partner[i]'(hv.len ▸ hi) = pid[j] ∧ gv[i]'(len2 ▸ hi) = true)) :=
  snId_spec_idx hv len2 hag

/-- Under validity `snId` raises the ValueError iff some spouses carry different flags. -/
theorem snId_error_iff {pid partner : List Int} {gv : List Bool} (hv : ValidPairs pid partner)
    (len2 : gv.length = pid.length) :
    snId pid partner gv = .error .valueError ↔
      ∃ i, ∃ hi : i < pid.length, ∃ j, ∃ hj : j < pid.length,
        partner[i]'(hv.len ▸ hi) = pid[j] ∧ gv[i]'(len2 ▸ hi) ≠ gv[j]'(len2 ▸ hj) := by
  rw [snId_error_iff_idx hv len2]
  have hl := hv.len
  constructor
  · intro h
    simp only [SpousesAgree] at h
    apply Classical.byContradiction
    intro hcon
    apply h
    intro i hi hi' hi'' j hj hj'' e
    apply Decidable.byContradiction
    intro hne
    exact hcon ⟨i, hi, j, hj, e, hne⟩
  · rintro ⟨i, hi, j, hj, e, hne⟩ h
    exact hne (h i hi (by omega) (by omega) j hj (by omega) e)

/-- Under validity `snId` raises no error other than the ValueError (in particular no KeyError). -/
theorem snId_only_valueError {pid partner : List Int} {gv : List Bool}
    (hv : ValidPairs pid partner) (len2 : gv.length = pid.length) {e : Err}
    (h : snId pid partner gv = .error e) : e = .valueError :=
  snId_no_other_error hv len2 h

/-- Tax units nest in marriages: equal sn ids imply equal ehe ids. -/
theorem sn_nests_in_ehe {pid partner : List Int} {gv : List Bool} (hv : ValidPairs pid partner)
    (len2 : gv.length = pid.length) (hag : SpousesAgree pid partner gv)
    {res : List Int} (hres : snId pid partner gv = .ok res)
    {i j : Nat} (hi : i < pid.length) (hj : j < pid.length)
    (hri : i < res.length) (hrj : j < res.length) (h : res[i] = res[j]) :
    (pairId pid partner)[i]'(by rw [pairId_length _ _ hv.len]; exact hi) =
      (pairId pid partner)[j]'(by rw [pairId_length _ _ hv.len]; exact hj) := by
  obtain ⟨res', hres', hlen, hspec⟩ := snId_spec hv len2 hag
  rw [hres] at hres'
  cases hres'
  rw [pairId_spec hv hi hj]
  rcases (hspec i hi j hj).mp h with e | ⟨e, _⟩
  · exact Or.inl e
  · exact Or.inr e

/-- non-vacuity: couple (70,3) jointly assessed, couple (12,41) separately assessed, single 5 -/
example : ValidPairs [70, 12, 3, 41, 5] [3, 41, 70, 12, -1] ∧
    SpousesAgree [70, 12, 3, 41, 5] [3, 41, 70, 12, -1] [true, false, true, false, false] :=
  ⟨⟨by decide, by decide, by decide, by decide, by decide, by decide⟩, by unfold SpousesAgree; decide⟩

example : snId [70, 12, 3, 41, 5] [3, 41, 70, 12, -1] [true, false, true, false, false]
    = .ok [0, 1, 0, 2, 3] := by decide

example : snId [70, 12, 3, 41, 5] [3, 41, 70, 12, -1] [true, false, false, false, false]
    = .error .valueError := by decide

end GV.Groupings
