import GettsimVerif.Lemmas.SimLocality
/-
Property C06 for the CONCRETE end-to-end model `GV.Simulate.simulate`
(`compute_taxes_and_transfers` for toy systems): reform locality.

"Changing values in one parameter group changes only columns that depend on that group through the
dependency graph; every other column is identical. Replacing a function by an identical copy, or
parameters by a deep copy, changes nothing."

Definitions (in `Lemmas/SimLocality.lean`):
* `usesGroup g f` — function `f` has an argument `<g>_params` or is a rule with rounding key `g`
  (the only two channels through which `params[g]` reaches a node: `_partial_parameters_to_functions`
  and `_add_rounding_to_functions`);
* `coneNames pr t` — all names reachable from `t` through the ARGUMENT lists of the functions that
  are not overridden by data (`Dag.reach`, data columns are leaves) — the dependency cone of `t`.

The abstract versions (arbitrary systems) are in `Props/C06.lean`.
-/
namespace GV.Simulate
open GV.Lang (Val)

/-- **Reform locality.** Let `params` and `params'` agree on every group except `g` (the values of
group `g` may differ arbitrarily, `g` may even be present in one and absent in the other), let both
calls of `compute_taxes_and_transfers` succeed, and let no function in the dependency cone of the
target `t` use group `g` (neither an argument `g_params` nor the rounding key `g`). Then `t` gets
exactly the same column in both results. (`pr` is the function set built by
`load_and_check_functions`, which does not depend on the parameters.) -/
theorem simulate_params_locality (inp : Input) (params' : List (String × Val)) (g t : String) (pr : Prep)
    (tbl tbl' : Table)
    (hp : ∀ k, k ≠ g → find? inp.params k = find? params' k)
    (hpr : prepare (inp.rules.map (ruleFn inp.rounding)) inp.groupSpecs inp.pidSpecs inp.data
      (sortDedup inp.targets) = .ok pr)
    (h : simulate inp = .ok tbl) (h' : simulate { inp with params := params' } = .ok tbl')
    (ht : t ∈ inp.targets)
    (hcone : ∀ f ∈ pr.fns, f.name ∈ coneNames pr t → usesGroup g f = false) :
    find? tbl t = find? tbl' t := by
  unfold simulate run at h h'
  simp only at h h'
  obtain ⟨pr0, hpr0, h1⟩ := bind_ok h
  obtain ⟨pr0', hpr0', h1'⟩ := bind_ok h'
  rw [hpr] at hpr0 hpr0'
  cases hpr0; cases hpr0'
  obtain ⟨p, hplan, h2⟩ := bind_ok h1
  obtain ⟨p', hplan', h2'⟩ := bind_ok h1'
  have hT : t ∈ sortDedup inp.targets := (mem_sortDedup t _).2 ht
  obtain ⟨v, hv, hf⟩ := loc_exec_value h2 hT
  obtain ⟨v', hv', hf'⟩ := loc_exec_value h2' hT
  obtain ⟨hdc, hwf⟩ := loc_prepare_ok (fun f hf => by
    obtain ⟨r, _, rfl⟩ := List.mem_map.1 hf
    exact ruleFn_wf _ r) hpr
  have hvv : v = v' := plan_value_congr g t hdc hwf hp hplan hplan' hcone hv hv'
  obtain ⟨_, _, _, _, _, hn⟩ := loc_plan_ok hplan
  obtain ⟨_, _, _, _, _, hn'⟩ := loc_plan_ok hplan'
  rw [hf, hf', hvv, hn, hn']

/-- **Parameters by (deep) copy.** The model reads the parameters only through look-ups
`params[group]`; hence two parameter collections with the same look-ups (a deep copy; the same
dictionary with its groups listed in another order; entries shadowed by earlier ones changed) give
the same result — table or error. -/
theorem simulate_params_copy (inp : Input) (params' : List (String × Val))
    (hp : ∀ k, find? inp.params k = find? params' k) :
    simulate { inp with params := params' } = simulate inp := by
  unfold simulate run
  simp only [plan_copy hp]

/-- **Rules by copy.** The result depends on the rules only through their vectorized versions
(name, definition, return annotation, rounding key): rule lists whose members agree in these give
the same result. In particular the argument annotations (`argTypes`) are irrelevant. -/
theorem simulate_rule_copy (inp : Input) (rules' : List Rule)
    (hr : List.Forall₂ (fun r r' => r.name = r'.name ∧ r.fn = r'.fn ∧ r.ret = r'.ret ∧
      r.roundingKey = r'.roundingKey) inp.rules rules') :
    simulate { inp with rules := rules' } = simulate inp := by
  unfold simulate
  simp only
  congr 1
  generalize inp.rules = rs at hr
  induction hr with
  | nil => rfl
  | cons hab _ ih =>
    obtain ⟨h1, h2, h3, h4⟩ := hab
    simp only [List.map_cons, ih, ruleFn, h1, h2, h3, h4]

/-! ### non-vacuity -/

namespace C06Examples
open GV.Lang GV.Yaml

def grp (c : Rat) : Val := .tree (.dict [(.s "c", .num c)])

/-- `ra(x, ga_params) = x * ga_params["c"]`, `rb(x, gb_params) = x + gb_params["c"]` -/
def ra : Rule :=
  { name := "ra", ret := some .float,
    fn := { name := "ra", args := ["x", "ga_params"],
            body := [.ret (.bin .mul (.name "x") (.sub (.name "ga_params") (.const (.str "c"))))] } }
def rb : Rule :=
  { name := "rb", ret := some .float,
    fn := { name := "rb", args := ["x", "gb_params"],
            body := [.ret (.bin .add (.name "x") (.sub (.name "gb_params") (.const (.str "c"))))] } }

def sys0 : Input :=
  { rules := [ra, rb], params := [("ga", grp 2), ("gb", grp 10)],
    data := [("p_id", [.int 0, .int 1]), ("hh_id", [.int 0, .int 0]), ("x", [.flt 1, .flt (5/2)])],
    targets := ["ra", "rb"] }

/-- the reform: `gb["c"]` 10 → 20 -/
def params1 : List (String × Val) := [("ga", grp 2), ("gb", grp 20)]

/-- `hp` of `simulate_params_locality` for `g = "gb"` -/
example : ∀ k, k ≠ "gb" → find? sys0.params k = find? params1 k := by
  intro k hk
  have hk' : ¬ "gb" = k := fun h => hk h.symm
  simp [sys0, params1, find?, Dag.find?_cons, hk']

/-- `hpr`, `hcone` for `t = "ra"`, `g = "gb"`: the preparation succeeds, the cone of `ra` is
`ra, x, ga_params`, and no function in it uses `gb` — whereas `rb` does -/
example : (match prepare (sys0.rules.map (ruleFn sys0.rounding)) sys0.groupSpecs sys0.pidSpecs sys0.data
      (sortDedup sys0.targets) with
    | .ok pr => decide (∀ f ∈ pr.fns, f.name ∈ coneNames pr "ra" → usesGroup "gb" f = false) &&
        coneNames pr "ra" == ["ra", "x", "ga_params"] &&
        pr.fns.any (fun f => f.name == "rb" && usesGroup "gb" f)
    | .error _ => false) = true := by decide +kernel

/-- `h`, `h'`: both calls succeed; `ra` is `[2, 5]` in both, `rb` changes from `[11, 12.5]` to
`[21, 22.5]`, so the conclusion is not trivially true for every column -/
example : (match simulate sys0, simulate { sys0 with params := params1 } with
    | .ok a, .ok b =>
        decide ("ra" ∈ sys0.targets) &&
        (match find? a "ra", find? b "ra" with
         | some [.flt u1, .flt u2], some [.flt w1, .flt w2] => u1 == 2 && u2 == 5 && w1 == 2 && w2 == 5
         | _, _ => false) &&
        (match find? a "rb", find? b "rb" with
         | some [.flt u1, .flt u2], some [.flt w1, .flt w2] =>
            u1 == 11 && u2 == 25/2 && w1 == 21 && w2 == 45/2
         | _, _ => false)
    | _, _ => false) = true := by decide +kernel

/-- the theorem applied to this system: whatever the two tables are, `ra` is the same in both -/
example (tbl tbl' : Table) (h : simulate sys0 = .ok tbl)
    (h' : simulate { sys0 with params := params1 } = .ok tbl') : find? tbl "ra" = find? tbl' "ra" := by
  have key : (match prepare (sys0.rules.map (ruleFn sys0.rounding)) sys0.groupSpecs sys0.pidSpecs sys0.data
      (sortDedup sys0.targets) with
    | .ok pr => decide (∀ f ∈ pr.fns, f.name ∈ coneNames pr "ra" → usesGroup "gb" f = false)
    | .error _ => false) = true := by decide +kernel
  cases hpr : prepare (sys0.rules.map (ruleFn sys0.rounding)) sys0.groupSpecs sys0.pidSpecs sys0.data
      (sortDedup sys0.targets) with
  | error e => rw [hpr] at key; cases key
  | ok pr =>
    rw [hpr] at key
    refine simulate_params_locality sys0 params1 "gb" "ra" pr tbl tbl' ?_ hpr h h' (by decide)
      (of_decide_eq_true key)
    intro k hk
    have hk' : ¬ "gb" = k := fun h => hk h.symm
    simp [sys0, params1, find?, Dag.find?_cons, hk']

/-- `simulate_params_copy`: the groups listed in the other order, plus a shadowed duplicate -/
def params2 : List (String × Val) := [("gb", grp 10), ("ga", grp 2), ("gb", grp 99)]
example : ∀ k, find? sys0.params k = find? params2 k := by
  intro k
  by_cases ha : "ga" = k
  · subst ha; simp [sys0, params2, find?, Dag.find?_cons]
  · by_cases hb : "gb" = k
    · subst hb; simp [sys0, params2, find?, Dag.find?_cons]
    · simp [sys0, params2, find?, Dag.find?_cons, ha, hb]

/-- `simulate_rule_copy`: a copy of `ra` with argument annotations -/
example : List.Forall₂ (fun r r' => r.name = r'.name ∧ r.fn = r'.fn ∧ r.ret = r'.ret ∧
    r.roundingKey = r'.roundingKey) sys0.rules [{ ra with argTypes := [("x", .float)] }, rb] :=
  .cons ⟨rfl, rfl, rfl, rfl⟩ (.cons ⟨rfl, rfl, rfl, rfl⟩ .nil)

/-- The rounding channel: a rule with rounding key `gb` but without a `gb_params` argument uses `gb`
(`usesGroup`), and its column does change when only `gb["rounding"]` changes. -/
def rc : Rule :=
  { name := "rc", ret := some .float, roundingKey := some "gb",
    fn := { name := "rc", args := ["x"], body := [.ret (.name "x")] } }
def rnd (b : Rat) : Val :=
  .tree (.dict [(.s "c", .num 10), (.s "rounding", .dict [(.s "rc", .dict [(.s "base", .num b), (.s "direction", .str "up")])])])
example : usesGroup "gb" (ruleFn true rc) = true ∧ usesGroup "gb" (ruleFn false rc) = false ∧
    usesGroup "ga" (ruleFn true rc) = false := by decide
example : (match simulate { sys0 with rules := [ra, rc], targets := ["rc"], params := [("ga", grp 2), ("gb", rnd 2)] },
      simulate { sys0 with rules := [ra, rc], targets := ["rc"], params := [("ga", grp 2), ("gb", rnd 5)] } with
    | .ok [(_, [.flt u1, .flt u2])], .ok [(_, [.flt w1, .flt w2])] => u1 == 2 && u2 == 4 && w1 == 5 && w2 == 5
    | _, _ => false) = true := by decide +kernel

/-! ### the order of the rules DOES matter (`simulate_rules_perm` is false)

REQUESTED (false): if the rules have pairwise distinct names, permuting the list `inp.rules` does
not change `simulate inp`.

Counterexample (self-test system S17c of `Core/Simulate.lean`, confirmed on the real code): with the
rules `s_m` and `s_y`, the derived time-conversion function `s_w` is created from BOTH
(`create_time_conversion_functions` iterates over the dictionary of functions and later entries
overwrite earlier ones), so `s_w` is computed from the rule that comes LAST in the dictionary. -/
def s_m : Rule := { name := "s_m", ret := some .float, fn := { name := "s_m", args := ["x"], body := [.ret (.name "x")] } }
def s_y : Rule :=
  { name := "s_y", ret := some .float,
    fn := { name := "s_y", args := ["x"], body := [.ret (.bin .mul (.name "x") (.const (.int 100)))] } }
example : (match simulate { sys0 with rules := [s_m, s_y], targets := ["s_w"] },
      simulate { sys0 with rules := [s_y, s_m], targets := ["s_w"] } with
    | .ok [(_, (.flt u) :: _)], .ok [(_, (.flt w) :: _)] => u != w
    | _, _ => false) = true := by decide +kernel

end C06Examples

end GV.Simulate
