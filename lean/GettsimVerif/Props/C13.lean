import GettsimVerif.Lemmas.TimeConv
import GettsimVerif.Lemmas.TimeConvNames
/-!
C13 — time-unit conversion: converters, name pattern, creation of derived nodes.
-/
namespace GV.TimeConv

/-- B1. Every one of the 16 converters is multiplication by `perYear u / perYear v`. -/
theorem conv_factor (u v : TUnit) (x : Rat) : conv u v x = x * (perYear u / perYear v) :=
  conv_eq_mul u v x

/-- B2. Converting there and back is the identity (exactly, over ℚ). -/
theorem conv_round_trip (u v : TUnit) (x : Rat) : conv v u (conv u v x) = x := by
  have hu := perYear_ne_zero u
  have hv := perYear_ne_zero v
  simp only [conv_eq_mul]
  field_simp

/-- B3. Conversions compose: `u → v → t` equals `u → t`. -/
theorem conv_compose (u v t : TUnit) (x : Rat) : conv v t (conv u v x) = conv u t x := by
  have hv := perYear_ne_zero v
  have ht := perYear_ne_zero t
  simp only [conv_eq_mul]
  field_simp

/-- B4. The documented factors: 12 months, 365.25/7 weeks, 365.25 days per year. -/
theorem conv_documented_factors (x : Rat) :
    conv .y .m x = x / 12 ∧
    conv .y .w x = x / ((36525 : Rat) / 700) ∧
    conv .y .w x = x * 7 / ((36525 : Rat) / 100) ∧
    conv .y .d x = x / ((36525 : Rat) / 100) ∧
    conv .m .y x = x * 12 ∧
    conv .w .y x = x * ((36525 : Rat) / 700) ∧
    conv .d .y x = x * ((36525 : Rat) / 100) := by
  refine ⟨rfl, rfl, ?_, rfl, rfl, rfl, rfl⟩
  simp only [conv, perYear]
  ring

/-- B5a. Conversion is additive. -/
theorem conv_add (u v : TUnit) (a b : Rat) : conv u v (a + b) = conv u v a + conv u v b :=
  conv_add' u v a b

/-- B5b. Conversion commutes with summation (left fold as in the aggregation model),
hence with group sums. -/
theorem conv_sum (u v : TUnit) (l : List Rat) :
    conv u v (l.foldl (· + ·) 0) = (l.map (conv u v)).foldl (· + ·) 0 := by
  have := conv_foldl u v l 0
  rwa [conv_zero] at this

/-- B5c. Same with `List.sum`. -/
theorem conv_list_sum (u v : TUnit) (l : List Rat) :
    conv u v l.sum = (l.map (conv u v)).sum := by
  induction l with
  | nil => exact conv_zero u v
  | cons a l ih => simp only [List.sum_cons, List.map_cons, conv_add', ih]

/-- B6. The parser recognises every name built as `<b>_<unit>[<group suffix>]`, for an
arbitrary base string `b` (which may itself contain `_m`, `_hh`, …). -/
theorem parseName_build (b : String) (t : TUnit) (g : String)
    (hg : g = "" ∨ g ∈ groupSuffixes) :
    parseName (b ++ "_" ++ t.toString ++ g) = some { base := b ++ "_", unit := t, agg := g } :=
  GV.TimeConv.parseName_build' b t g hg

example : "_wthh" ∈ groupSuffixes := by decide

/-- B6 (table). The parser on representative names. -/
theorem parseName_table :
    ["bruttolohn_m", "eink_st_y_sn", "arbeitsl_geld_2_m_bg", "wohngeld_m_wthh", "kind",
     "x_m_m", "_m", "m", "a_w_ehe", "a_d_eg", "a_y_fg", "hh", "x_hh", "x_m_hhh",
     "x_m_hh_y", "x_m_y_hh"].map parseName
    = [some ⟨"bruttolohn_", .m, ""⟩, some ⟨"eink_st_", .y, "_sn"⟩,
       some ⟨"arbeitsl_geld_2_", .m, "_bg"⟩, some ⟨"wohngeld_", .m, "_wthh"⟩, none,
       some ⟨"x_m_", .m, ""⟩, some ⟨"_", .m, ""⟩, none, some ⟨"a_", .w, "_ehe"⟩,
       some ⟨"a_", .d, "_eg"⟩, some ⟨"a_", .y, "_fg"⟩, none, none, none,
       some ⟨"x_m_hh_", .y, ""⟩, some ⟨"x_m_", .y, "_hh"⟩] := by
  decide +kernel

/-- B7a. No derived node has the name of a data column. -/
theorem create_no_shadow (functions : List (String × List String)) (dataCols : List String) :
    ∀ d ∈ create functions dataCols, d.name ∉ dataCols :=
  create_inv functions dataCols

/-- B7b. `create` is the second loop (over data columns) run on the result `firstLoop` of the
first loop (over functions) … -/
theorem create_eq_loops (functions : List (String × List String)) (dataCols : List String) :
    create functions dataCols
      = dataCols.foldl (fun res n => (step2 dataCols n).foldl upd res)
          (firstLoop functions dataCols) :=
  create_eq functions dataCols

/-- … and no node of the first loop has the name of a function or of a data column. -/
theorem create_first_loop_no_shadow (functions : List (String × List String))
    (dataCols : List String) :
    ∀ d ∈ firstLoop functions dataCols, d.name ∉ functions.map (·.1) ∧ d.name ∉ dataCols :=
  firstLoop_inv functions dataCols

/-- Nodes of the *second* loop may carry a function's name ("overwrite existing functions"). -/
example : (create [("a_y", [])] ["a_m"]).map (·.name) = ["a_w", "a_d", "a_y"] := by
  decide +kernel

/-- B7c. A derived node's name is never one of the dependencies of its source (no 2-cycle). -/
theorem derivedOf_not_dep (n : String) (deps : List String) :
    ∀ d ∈ derivedOf n deps, d.name ∉ deps := by
  intro d hd
  obtain ⟨p, _, _, _, _, _, h⟩ := mem_derivedOf hd
  exact h

example : (derivedOf "a_y" ["a_m"]).map (·.name) = ["a_w", "a_d"] := by decide +kernel

/-- B7d. A derived node converts between two different units and points to its source. -/
theorem derived_units_differ (n : String) (deps : List String) :
    ∀ d ∈ derivedOf n deps, d.u ≠ d.v ∧ d.src = n := by
  intro d hd
  obtain ⟨p, _, hv, hu, hs, _, _⟩ := mem_derivedOf hd
  exact ⟨fun h => hv (h ▸ hu), hs⟩

/-- B7e. Shape of a derived node: same base and group suffix as the source, other unit. -/
theorem derived_name_shape (n : String) (deps : List String) :
    ∀ d ∈ derivedOf n deps, ∃ p, parseName n = some p ∧ d.u = p.unit ∧
      d.name = p.base ++ d.v.toString ++ p.agg := by
  intro d hd
  obtain ⟨p, hp, _, hu, _, hn, _⟩ := mem_derivedOf hd
  exact ⟨p, hp, hu, hn⟩

end GV.TimeConv
