import GettsimVerif.Driver
/- Dispatch of the line protocol to the executable models. -/
open Lean GV

namespace GV.Drv

def opGrouped (j : Json) : Except String Json := do
  let f ← str j "f"
  let gid ← ints j "gid"
  match f with
  | "sum" => pure (out oRats (Agg.groupedSum (← rats j "col") gid))
  | "mean" => pure (out oRats (Agg.groupedMean (← rats j "col") gid))
  | "max" => pure (out oRats (Agg.groupedMax (← rats j "col") gid))
  | "min" => pure (out oRats (Agg.groupedMin (← rats j "col") gid))
  | "any" => pure (out oBools (Agg.groupedAny (← bools j "col") gid))
  | "all" => pure (out oBools (Agg.groupedAll (← bools j "col") gid))
  | "count" => pure (out oInts (Agg.groupedCount gid))
  | _ => throw s!"unknown aggregation {f}"

def opPersons (j : Json) : Except String (List Groupings.Person) := do
  let pid ← ints j "p_id"; let hh ← ints j "hh_id"; let al ← ints j "alter"
  let pa ← ints j "partner"; let e1 ← ints j "e1"; let e2 ← ints j "e2"
  pure <| (List.range pid.length).map fun i =>
    { pid := pid.getD i 0, hh := hh.getD i 0, alter := al.getD i 0,
      partner := pa.getD i (-1), e1 := e1.getD i (-1), e2 := e2.getD i (-1) }

def dispatch (j : Json) : Except String Json := do
  let op ← str j "op"
  match op with
  | "grouped" => opGrouped j
  | "sum_by_p_id" => pure (out oRats (Agg.sumByPid (← rats j "col") (← ints j "ptr") (← ints j "p_id")))
  | "join" => pure (out oRats (Agg.joinNumpy (← ints j "fk") (← ints j "pk") (← rats j "target") (← rat j "dflt")))
  | "pair_id" => pure (out oInts (.ok (Groupings.pairId (← ints j "p_id") (← ints j "partner"))))
  | "sn_id" => pure (out oInts (Groupings.snId (← ints j "p_id") (← ints j "partner") (← bools j "gv")))
  | "bg_id" => pure (out oInts (.ok (Groupings.bgId (← ints j "fg_id") (← ints j "alter") (← bools j "eigen"))))
  | "wthh_id" => pure (out oInts (.ok (Groupings.wthhId (← ints j "hh_id") (← bools j "v1") (← bools j "v2"))))
  | "fg_id" => pure (out oInts (Groupings.fgId (← bool j "repaired") (← opPersons j)))
  | _ => throw s!"unknown op {op}"

end GV.Drv
