import GettsimVerif.Driver
import GettsimVerif.DriverLang
import GettsimVerif.Core.Levels
import GettsimVerif.Core.VecDtype
import GettsimVerif.Core.Process
import GettsimVerif.Core.Typing
import GettsimVerif.Core.Sym
import GettsimVerif.Core.Sign
import GettsimVerif.Core.TypeInfer
import GettsimVerif.Core.PEval
import GettsimVerif.Core.Simulate
/- Dispatch of the line protocol to the executable models. -/
open Lean GV

namespace GV.Drv

def opGrouped (j : Json) : Except String Json := do
  let f ← str j "f"
  let gid ← ints j "gid"
  match f with
  | "sum" => pure (out oRats (Agg.groupedSum (← rats j "col") gid))
  | "mean" => pure (out oRats (Agg.groupedMean (← rats j "col") gid))
  | "max" => pure (out oRats (Agg.groupedMax (← rats j "col") gid))
  | "min" => pure (out oRats (Agg.groupedMin (← rats j "col") gid))
  | "any" => pure (out oBools (Agg.groupedAny (← bools j "col") gid))
  | "all" => pure (out oBools (Agg.groupedAll (← bools j "col") gid))
  | "count" => pure (out oInts (Agg.groupedCount gid))
  | _ => throw s!"unknown aggregation {f}"

def opPersons (j : Json) : Except String (List Groupings.Person) := do
  let pid ← ints j "p_id"; let hh ← ints j "hh_id"; let al ← ints j "alter"
  let pa ← ints j "partner"; let e1 ← ints j "e1"; let e2 ← ints j "e2"
  pure <| (List.range pid.length).map fun i =>
    { pid := pid.getD i 0, hh := hh.getD i 0, alter := al.getD i 0,
      partner := pa.getD i (-1), e1 := e1.getD i (-1), e2 := e2.getD i (-1) }

/-- driver state: data loaded once and used by later operations -/
structure St where
  raw : Params.Raw := []
  copied : List String := []
  groups : List String := []
  reg : List Params.FnEntry := []
  envs : List (String × Lang.Val) := []     -- named parameter trees for `run_fun`

def strs (j : Json) (k : String) : Except String (List String) := do (← jArr (← field j k)).mapM jStr

def opLoadRaw (j : Json) : Except String St := do
  let groups ← jArr (← field j "raw")
  let raw ← groups.mapM fun g => match g with
    | .arr #[.str n, y] => do pure (n, ← jY y)
    | _ => throw "bad raw group"
  let reg ← (← jArr (← field j "registry")).mapM fun e => do
    pure ({ module := ← str e "module", fname := ← str e "fname", dagName := ← str e "dag",
            timeDependent := ← bool e "td", start := ← int e "start", stop := ← int e "stop" } : Params.FnEntry)
  pure { raw := raw, copied := ← strs j "copied", groups := ← strs j "groups", reg := reg }

def dateInfo (o : Int) : Json :=
  let (y, m, d) := Dates.toYMD o
  Json.mkObj [("ymd", oInts [y, m, d]), ("jan1", oInts [Dates.jan1 o]), ("subYear", oInts [Dates.subYear o]),
              ("back", oInts [Dates.ofYMD y m d])]

/-! ### result-kind analysis (C03) -/

def jKindName : String → Except String TypeInfer.Kind
  | "int" => pure .int | "flt" => pure .flt | "bool" => pure .bool | "inf" => pure .inf
  | "str" => pure .str | "tree" => pure .tree | "none" => pure .none
  | s => throw s!"bad kind {s}"

/-- {"fun": F, "args": [[kind names] per argument],
     "declared": optional "float"|"int"|"bool",
     "fixed": optional [[argname, treename]] (trees stored by "set_trees"),
     "consts": optional [[argname, Val]]}
→ the kinds the result can have (sorted by name), whether the body can fall off its end, whether
the body contains constructs the model cannot evaluate, and (if `declared` is given) whether the
cast to the declared type is lossless for all these kinds.  "fixed"/"consts" give KNOWN argument
values (parameter trees of one policy date); their kind is added to the argument's kind list. -/
def opTypeInfer (envs : List (String × Lang.Val)) (j : Json) : Except String Json := do
  let f ← jFun (← field j "fun")
  let argKinds0 ← (← jArr (← field j "args")).mapM fun a => do
    pure (TypeInfer.KindSet.ofList (← (← jArr a).mapM fun k => do jKindName (← jStr k)))
  if argKinds0.length ≠ f.args.length then
    throw s!"type_infer: {f.args.length} arguments, {argKinds0.length} kind lists"
  let fixed ← match j.getObjVal? "fixed" with
    | .ok (.arr xs) => xs.toList.mapM fun kv => match kv with
      | .arr #[.str a, .str t] => match envs.find? (·.1 = t) with
        | some (_, v) => pure (a, v)
        | none => throw s!"unknown tree {t}"
      | _ => throw "bad fixed entry"
    | _ => pure []
  let consts ← match j.getObjVal? "consts" with
    | .ok (.arr xs) => xs.toList.mapM fun kv => match kv with
      | .arr #[.str a, v] => do pure (a, ← jVal v)
      | _ => throw "bad consts entry"
    | _ => pure []
  let K : Lang.Env := (fixed ++ consts).filter fun p => f.args.contains p.1
  -- a known argument has (also) the kind of its known value
  let argKinds := (f.args.zip argKinds0).map fun (a, ks) => match Lang.Env.get? K a with
    | some v => ks ∪ TypeInfer.KindSet.single (TypeInfer.kindOf v)
    | none => ks
  let res := TypeInfer.tyFunResK K argKinds f
  let kinds := TypeInfer.tyFunK K argKinds f
  let names := (kinds.toList.map TypeInfer.Kind.name).toArray.qsort (· < ·)
  let base := [("kinds", Json.arr (names.map Json.str)), ("falls_off", .bool res.falls),
               ("unmodelled", .bool (TypeInfer.unmodelledB f.body)),
               ("known_used", .bool (!(TypeInfer.usableK K f.body).isEmpty))]
  let extra ← match j.getObjVal? "declared" with
    | .ok (.str d) => do
      let k : TypeInfer.Kind ← match d with
        | "float" => pure .flt | "int" => pure .int | "bool" => pure .bool
        | s => throw s!"bad declared type {s}"
      pure [("lossless", Json.bool (TypeInfer.losslessFor k kinds))]
    | _ => pure []
  pure (Json.mkObj (base ++ extra))

/-! ### the end-to-end model `Core/Simulate.lean` on a whole rule system (tie T4) -/

def jTy (j : Json) : Except String (Option Simulate.Ty) :=
  match j with
  | .str "float" => pure (some .float) | .str "int" => pure (some .int) | .str "bool" => pure (some .bool)
  | .null => pure none
  | _ => throw "bad return annotation (float | int | bool | null)"

def jAggr : String → Except String Simulate.Aggr
  | "sum" => pure .sum | "mean" => pure .mean | "max" => pure .max | "min" => pure .min
  | "any" => pure .any | "all" => pure .all | "count" => pure .count
  | s => throw s!"aggregation {s} is not modelled"

/-- {"op":"simulate","rules":[{"fun":F,"ret":"float"|"int"|"bool"|null,"key":<rounding key or null>}],
     "params":[names of trees stored by "set_trees"],
     "group_specs":[[name,{"aggr":…,"source_col":…?}]], "pid_specs":[[name,{"p_id_to_aggregate_by":…,"source_col":…}]],
     "data":[[name,[Val…]]], "targets":[…], "rounding":bool}
→ {"ok":[[name,[Val…]]]} (the columns of `Simulate.simulate`, i.e. in the order of the sorted targets)
  or {"error":"<error class>"}.  The name of a rule in the DAG is `F.name`. -/
def opSimulate (envs : List (String × Lang.Val)) (j : Json) : Except String Json := do
  let rules ← (← jArr (← field j "rules")).mapM fun r => do
    let f ← jFun (← field r "fun")
    let ret ← match r.getObjVal? "ret" with
      | .ok v => jTy v
      | .error _ => pure none
    pure ({ name := f.name, fn := f, ret := ret, roundingKey := ← optStrN r "key" } : Simulate.Rule)
  let params ← (← strs j "params").mapM fun g => match envs.find? (·.1 = g) with
    | some (_, v) => pure (g, v)
    | none => throw s!"unknown tree {g}"
  let groupSpecs ← (← jArr (← field j "group_specs")).mapM fun e => match e with
    | .arr #[.str n, s] => do
      pure (n, ({ aggr := ← jAggr (← str s "aggr"), source := ← optStrN s "source_col" } : Simulate.GroupSpec))
    | _ => throw "bad group spec"
  let pidSpecs ← (← jArr (← field j "pid_specs")).mapM fun e => match e with
    | .arr #[.str n, s] => do
      pure (n, ({ pIdToAggregateBy := ← str s "p_id_to_aggregate_by", source := ← str s "source_col" } : Simulate.PidSpec))
    | _ => throw "bad p_id spec"
  let data ← (← jArr (← field j "data")).mapM fun e => match e with
    | .arr #[.str n, .arr vs] => do pure (n, ← vs.toList.mapM jVal)
    | _ => throw "bad data column"
  let inp : Simulate.Input :=
    { rules, params, groupSpecs, pidSpecs, data, targets := ← strs j "targets", rounding := ← bool j "rounding" }
  match Simulate.simulate inp with
  | .ok t => pure (Json.mkObj [("ok", .arr (t.map fun (n, c) => Json.arr #[.str n, .arr (c.map oVal).toArray]).toArray)])
  | .error e => pure (Json.mkObj [("error", .str (toString e))])
where
  optStrN (j : Json) (k : String) : Except String (Option String) :=
    match j.getObjVal? k with
    | .ok (.str s) => pure (some s)
    | .ok .null => pure none
    | .ok _ => throw s!"{k}: string or null expected"
    | .error _ => pure none

def statefulOp (st : St) (op : String) (j : Json) : Except String (Option (St × Json)) := do
  match op with
  | "load_raw" => let st' ← opLoadRaw j; pure (some (st', Json.mkObj [("ok", .str "loaded")]))
  | "env" =>
    let r := Params.env st.copied st.groups st.raw 200 (← int j "date")
    pure (some (st, out oY r))
  | "group" =>
    let r := Params.loadGroup st.copied st.raw 200 (← int j "date") (← str j "group") none
    pure (some (st, out (fun kvs => oY (.dict kvs)) r))
  | "set_trees" =>
    let kvs ← (← jArr (← field j "trees")).mapM fun kv => match kv with
      | .arr #[.str n, y] => do pure (n, Lang.Val.tree (← jY y))
      | _ => throw "bad tree entry"
    pure (some ({ st with envs := kvs }, Json.mkObj [("ok", .str "stored")]))
  | "type_infer" => pure (some (st, ← opTypeInfer st.envs j))
  | "simulate" => pure (some (st, ← opSimulate st.envs j))
  | "run_rule" =>
    -- {"fun": F, "fixed": [[argname, treename]], "rows": [[vals for the remaining args in order]]}
    let f ← jFun (← field j "fun")
    let fixed ← (← jArr (← field j "fixed")).mapM fun kv => match kv with
      | .arr #[.str a, .str t] => match st.envs.find? (·.1 = t) with
        | some (_, v) => pure (a, v)
        | none => throw s!"unknown tree {t}"
      | _ => throw "bad fixed entry"
    let free := f.args.filter fun a => !(fixed.any (·.1 = a))
    let rows ← (← jArr (← field j "rows")).mapM fun r => do (← jArr r).mapM jVal
    let res := rows.map fun vals =>
      let env : List (String × Lang.Val) := free.zip vals ++ fixed
      let args := f.args.map fun a => (env.find? (·.1 = a)).map (·.2) |>.getD Lang.Val.none
      match Lang.runFun f args with
      | .ok v => Json.mkObj [("ok", oVal v)]
      | .error e => Json.mkObj [("err", .str (toString e))]
    pure (some (st, .arr res.toArray))
  | "functions" =>
    let fs := Params.functionsFor st.reg (← int j "date")
    pure (some (st, Json.mkObj [("ok", .arr (fs.map fun (n, e) =>
      Json.arr #[.str n, .str e.module, .str e.fname]).toArray)]))
  | _ => pure none

def optRat (j : Json) (k : String) : Except String (Option Rat) :=
  match j.getObjVal? k with
  | .ok .null => pure none
  | .ok v => do pure (some (← jRat v))
  | .error _ => pure none

def optStr (j : Json) (k : String) : Except String (Option String) :=
  match j.getObjVal? k with
  | .ok (.str s) => pure (some s)
  | _ => pure none

def unitOf (s : String) : Except String TimeConv.TUnit :=
  match s.toList with
  | [c] => match TimeConv.TUnit.ofChar? c with
    | some u => pure u
    | none => throw "bad unit"
  | _ => throw "bad unit"

def opRound (j : Json) : Except String Json := do
  let xs ← rats j "x"
  let spec : Option Round.Spec ←
    if (← bool j "has_spec") then
      pure (some { base := ← optRat j "base", direction := ← optStr j "direction", off := ← optRat j "off" })
    else pure none
  let on ← bool j "rounding"
  let hk ← bool j "has_key"
  pure (out oRats (xs.mapM fun x => Round.applyRounding on hk spec x))

def opTcCreate (j : Json) : Except String Json := do
  let fs ← (← jArr (← field j "functions")).mapM fun f => match f with
    | .arr #[.str n, .arr deps] => do pure (n, ← deps.toList.mapM jStr)
    | _ => throw "bad function entry"
  let ds := TimeConv.create fs (← strs j "data_cols")
  pure (Json.mkObj [("ok", .arr (ds.map fun d =>
    Json.arr #[.str d.name, .str d.src, .str d.u.toString, .str d.v.toString]).toArray)])

def jExt (j : Json) : Except String Piecewise.Ext :=
  match j with
  | .str "inf" => pure .posInf
  | .str "-inf" => pure .negInf
  | other => do pure (.fin (← jRat other))

def opPwEval (j : Json) : Except String Json := do
  let thr ← (← jArr (← field j "thresholds")).mapM jExt
  let rates ← (← jArr (← field j "rates")).mapM fun r => do (← jArr r).mapM jRat
  let s : Piecewise.Schedule := { thresholds := thr, rates := rates, intercepts := ← rats j "intercepts" }
  match j.getObjVal? "mult" with
  | .ok (.str _) => do
    let m ← rat j "mult"
    pure (Json.mkObj [("ok", oRats ((← rats j "x").map (Piecewise.evalMul s m)))])
  | _ => pure (Json.mkObj [("ok", oRats ((← rats j "x").map (Piecewise.eval s)))])

def jLevel (s : String) : Except String Levels.Level :=
  match Levels.Level.ofString? s with
  | some l => pure l
  | none => throw s!"bad level {s}"

def jKind (j : Json) : Except String Levels.Kind := do
  match ← str j "k" with
  | "input" => match j.getObjVal? "level" with
    | .ok (.str l) => do pure (.input (some (← jLevel l)))
    | _ => pure (.input none)
  | "param" => pure .param
  | "agg" => do pure (.agg (← jLevel (← str j "level")))
  | "rowwise" => do pure (.rowwise (← strs j "args"))
  | "grouping" => do pure (.grouping (← jLevel (← str j "level")))
  | "timeconv" => do pure (.timeconv (← str j "src"))
  | "opaque" => pure .opaque
  | k => throw s!"bad kind {k}"

/-- {"graph": [[name, kind]] (dependencies first), "names": [[name, level]]} → unproved suffixed nodes + table -/
def opLevels (j : Json) : Except String Json := do
  let graph ← (← jArr (← field j "graph")).mapM fun e => match e with
    | .arr #[.str n, k] => do pure (n, ← jKind k)
    | _ => throw "bad graph entry"
  let names ← (← jArr (← field j "names")).mapM fun e => match e with
    | .arr #[.str n, .str l] => do pure (n, ← jLevel l)
    | _ => throw "bad name entry"
  let bad := Levels.checkSuffixesT graph names
  let tab := Levels.constTable graph
  pure (Json.mkObj [("unproved", .arr (bad.map Json.str).toArray),
    ("table", .arr (tab.map fun (n, ls) => Json.arr #[.str n, .arr (ls.map fun l => Json.str l.suffix).toArray]).toArray)])

def jR (j : Json) : Except String VecDtype.R :=
  match j with
  | .bool b => pure (.b b)
  | .num n => if n.exponent = 0 then pure (.i n.mantissa) else throw "use strings for floats"
  | .str s => do pure (.f (← ratOfString s))
  | _ => throw "bad result"

def oR : VecDtype.R → Json
  | .b v => .bool v
  | .i v => Json.num (JsonNumber.fromInt v)
  | .f q => .str (ratStr q)

def dtName : VecDtype.DT → String
  | .bool => "bool" | .int => "int" | .float => "float"

/-- {"decl": "float"|"int"|"bool"|null, "rows": [...]} → dtype + values, or null (numpy raises) -/
def opVectorize (j : Json) : Except String Json := do
  let decl : Option VecDtype.DT ← match j.getObjVal? "decl" with
    | .ok (.str "float") => pure (some .float) | .ok (.str "int") => pure (some .int)
    | .ok (.str "bool") => pure (some .bool) | _ => pure none
  let rows ← (← jArr (← field j "rows")).mapM jR
  match VecDtype.vectorize decl rows with
  | some (t, vs) => pure (Json.mkObj [("ok", Json.mkObj [("dtype", .str (dtName t)), ("values", .arr (vs.map oR).toArray)])])
  | none => pure (Json.mkObj [("err", .str "ValueError")])

/-! ### Typing model: cells travel as strings i:5 f:3/4 nan inf -inf b:1 s:text d:123 -/

def jCell (j : Json) : Except String Typing.Cell := do
  let s ← jStr j
  if s = "nan" then pure .fnan
  else if s = "inf" then pure (.finf false)
  else if s = "-inf" then pure (.finf true)
  else
    let tag := (s.take 2).toString
    let rest := (s.drop 2).toString
    match tag with
    | "i:" => match rest.toInt? with | some v => pure (.i v) | none => throw "bad int cell"
    | "f:" => do pure (.f (← ratOfString rest))
    | "b:" => pure (.b (rest = "1"))
    | "s:" => pure (.s rest)
    | "d:" => match rest.toInt? with | some v => pure (.d v) | none => throw "bad date cell"
    | _ => throw s!"bad cell {s}"

def oCell : Typing.Cell → Json
  | .i v => .str s!"i:{v}"
  | .f q => .str s!"f:{q.num}/{q.den}"
  | .fnan => .str "nan"
  | .finf n => .str (if n then "-inf" else "inf")
  | .b v => .str (if v then "b:1" else "b:0")
  | .s v => .str ("s:" ++ v)
  | .d v => .str s!"d:{v}"

def jDType : String → Except String Typing.DType
  | "int64" => pure .int64 | "float64" => pure .float64 | "bool" => pure .bool
  | "object" => pure .object | "datetime" => pure .datetime | "str" => pure .str
  | s => throw s!"bad dtype {s}"

def dtypeStr : Typing.DType → String
  | .int64 => "int64" | .float64 => "float64" | .bool => "bool"
  | .object => "object" | .datetime => "datetime" | .str => "str"

def jITy : String → Except String Typing.ITy
  | "float" => pure .float | "int" => pure .int | "bool" => pure .bool | "datetime" => pure .datetime
  | s => throw s!"bad internal type {s}"

def jCol (j : Json) : Except String Typing.Col := do
  pure { dtype := ← jDType (← str j "dtype"), cells := ← (← jArr (← field j "cells")).mapM jCell }

def oCol (c : Typing.Col) : Json :=
  Json.mkObj [("dtype", .str (dtypeStr c.dtype)), ("cells", .arr (c.cells.map oCell).toArray)]

def jTable (j : Json) : Except String Typing.Table := do
  (← jArr j).mapM fun e => match e with
    | .arr #[.str n, c] => do pure (n, ← jCol c)
    | _ => throw "bad table entry"

def opTyping (op : String) (j : Json) : Except String Json := do
  match op with
  | "typing_has" => do
    pure (Json.mkObj [("ok", .bool (Typing.hasExpectedType (← jCol (← field j "col")) (← jITy (← str j "target"))))])
  | "typing_convert" =>
    pure (out oCol (Typing.convert (← jCol (← field j "col")) (← jITy (← str j "target"))))
  | "typing_process" =>
    pure (out (fun _ => Json.str "accepted")
      (Typing.processAndCheck (← strs j "levels") (← strs j "fks") (← jTable (← field j "table"))))
  | "typing_convert_all" => do
    let types ← (← jArr (← field j "types")).mapM fun e => match e with
      | .arr #[.str n, .str t] => do pure (n, ← jITy t)
      | _ => throw "bad type entry"
    pure (out (fun (r : Typing.Table × List String) =>
        Json.mkObj [("table", .arr (r.1.map fun (n, c) => Json.arr #[.str n, oCol c]).toArray),
                    ("converted", .arr (r.2.map Json.str).toArray)])
      (Typing.convertAll types (← jTable (← field j "table"))))
  | _ => throw "unknown typing op"

/-! ### symbolic evaluation of rule chains in one real variable -/

def jChain (j : Json) : Except String Sym.Chain := do
  let consts ← (← jArr (← field j "consts")).mapM fun e => match e with
    | .arr #[.str n, v] => do pure (n, ← jVal v)
    | _ => throw "bad const"
  let nodes ← (← jArr (← field j "nodes")).mapM fun e => do
    pure ({ name := ← str e "name", fn := ← jFun (← field e "fn"), argNames := ← strs e "argNames" } : Sym.ChainNode)
  pure { wname := ← str j "wname", consts := consts, nodes := nodes }

def jBreaks (j : Json) : Except String (List (Rat × Bool)) := do
  (← jArr j).mapM fun e => match e with
    | .arr #[q, .bool b] => do pure (← jRat q, b)
    | _ => throw "bad breakpoint"

def oPieces (pcs : Sym.Pieces) : Json :=
  .arr (pcs.map fun (I, a, b) => Json.mkObj [("lo", oRat I.lo), ("loClosed", .bool I.loClosed),
    ("hi", match I.hi with | some h => oRat h | none => Json.null), ("hiClosed", .bool I.hiClosed),
    ("a", oRat a), ("b", oRat b)]).toArray

/-- {"chain": C, "target": t, "start": q, "bs": [[q, leftClosed]], "checks": [{"k": "nonneg"} | {"k": "nondec"} |
    {"k": "zeroBelow", "g": q, "incl": b} | {"k": "constantAbove", "c": q, "incl": b} | {"k": "continuousAt", "m": q} |
    {"k": "sumEq", "t1": .., "t2": .., "t3": ..}]} -/
def opSym (j : Json) : Except String Json := do
  let C ← jChain (← field j "chain")
  let target ← str j "target"
  let start ← rat j "start"
  let bs ← jBreaks (← field j "bs")
  let pcs? := Sym.affineOn C target start bs
  let checks ← jArr (← field j "checks")
  let results ← checks.mapM fun c => do
    let k ← str c "k"
    let r : Bool ← match k with
      | "sumEq" => pure (Sym.sumEqChk C (← str c "t1") (← str c "t2") (← str c "t3") start bs)
      | _ => match pcs? with
        | none => pure false
        | some pcs => match k with
          | "nonneg" => pure (Sym.nonnegChk pcs)
          | "nondec" => pure (Sym.nondecChk pcs)
          | "zeroBelow" => do pure (Sym.zeroBelowChk (← rat c "g") (← bool c "incl") pcs)
          | "constantAbove" => do pure (Sym.constantAboveChk (← rat c "c") (← bool c "incl") pcs)
          | "continuousAt" => do pure (Sym.continuousAtChk (← rat c "m") pcs)
          | _ => throw s!"unknown check {k}"
    pure (Json.bool r)
  -- where symbolic evaluation fails: the first piece on which the chain is not certifiably affine
  let failing : Json := match pcs? with
    | some _ => Json.null
    | none => match (Sym.pieces start bs).find? (fun I => (Sym.affinePiece C target I).isNone) with
      | some I => Json.mkObj [("lo", oRat I.lo), ("hi", match I.hi with | some h => oRat h | none => Json.null)]
      | none => Json.null
  pure (Json.mkObj [("pieces", match pcs? with | some p => oPieces p | none => Json.null),
                    ("results", .arr results.toArray), ("failing_piece", failing)])

/-- concrete run of the chain at given wages (for the correspondence with the real system) -/
def opChainRun (j : Json) : Except String Json := do
  let C ← jChain (← field j "chain")
  let targets ← strs j "targets"
  let ws ← rats j "w"
  let rows : List Json := ws.map fun w =>
    Json.arr (targets.map fun t => match C.valAt t w with
      | some q => oRat q
      | none => Json.null).toArray
  pure (Json.arr rows.toArray)

/-! ### sign analysis over a dependency graph -/

def jAbs : String → Except String Sign.Abs
  | "nonneg" => pure .nonneg | "pos" => pure .pos | "zero" => pure .zero | "bool" => pure .bool
  | "pnn" => pure .pnn | "any" => pure .any
  | s => throw s!"bad abstract value {s}"

def absStr : Sign.Abs → String
  | .nonneg => "nonneg" | .pos => "pos" | .zero => "zero" | .bool => "bool" | .pnn => "pnn" | .any => "any"

def jGNode (j : Json) : Except String Sign.GNode := do
  let name ← str j "name"
  let k ← field j "kind"
  let kind : Sign.NodeKind ← match ← str k "k" with
    | "rule" => do pure (.rule (← jFun (← field k "fn")) (← strs k "argNames"))
    | "input" => do pure (.input (← jAbs (← str k "a")))
    | "const" => do pure (.input (Sign.absConst (← jVal (← field k "v"))))   -- parameter tree / constant
    | "sumAgg" => do pure (.sumAgg (← str k "src"))
    | "countAgg" => pure .countAgg
    | "maxAgg" => do pure (.maxAgg (← str k "src"))
    | "minAgg" => do pure (.minAgg (← str k "src"))
    | "anyAgg" => do pure (.anyAgg (← str k "src"))
    | "timeconv" => do pure (.timeconv (← str k "src"))
    | _ => pure .opaque
  pure { name := name, kind := kind }

/-- {"nodes": [GNode]} (dependencies first) → sign table + certified (node ≤ argument node) facts -/
def opSignTable (j : Json) : Except String Json := do
  let nodes ← (← jArr (← field j "nodes")).mapM jGNode
  let tbl := Sign.signTable nodes
  let les := Sign.leFacts nodes
  pure (Json.mkObj [("ok", .arr (tbl.map fun (n, a) => Json.arr #[.str n, .str (absStr a)]).toArray),
                    ("le", .arr (les.map fun (a, b) => Json.arr #[.str a, .str b]).toArray)])

/-- the constant nodes (`{"k":"const","v":…}`: parameter groups) of a graph with their values -/
def jConsts (js : List Json) : Except String (List (String × Lang.Val)) := do
  let cs ← js.mapM fun j => do
    let k ← field j "kind"
    match ← str k "k" with
    | "const" => do pure (some (← str j "name", ← jVal (← field k "v")))
    | _ => pure none
  pure (cs.filterMap id)

/-- same input and output as `sign_table`, but every rule is first specialised to the constant nodes among its
arguments (`PEval.peGraph`: verified constant propagation + folding, `Lemmas/PEval.lean`, `Props/C16PE.lean`) -/
def opSignTablePE (j : Json) : Except String Json := do
  let js ← jArr (← field j "nodes")
  let nodes ← js.mapM jGNode
  let consts ← jConsts js
  let nodes' := PEval.peGraph consts nodes
  let tbl := Sign.signTable nodes'
  let les := Sign.leFacts nodes'
  pure (Json.mkObj [("ok", .arr (tbl.map fun (n, a) => Json.arr #[.str n, .str (absStr a)]).toArray),
                    ("le", .arr (les.map fun (a, b) => Json.arr #[.str a, .str b]).toArray)])

def dispatch (j : Json) : Except String Json := do
  let op ← str j "op"
  if op = "sign_table" then return ← opSignTable j
  if op = "sign_table_pe" then return ← opSignTablePE j
  if op = "type_infer" then return ← opTypeInfer [] j
  if op = "sym" then return ← opSym j
  if op = "chain_run" then return ← opChainRun j
  if op.startsWith "typing_" then return ← opTyping op j
  match op with
  | "levels" => opLevels j
  | "vectorize" => opVectorize j
  | "pw_eval" => opPwEval j
  | "transform" => opTransform j
  | "run_fun" => opRunFun j
  | "fun_ok" => opFunOk j
  | "run_arr" => opRunArr j
  | "round" => opRound j
  | "conv" => do
    let u ← unitOf (← str j "u"); let v ← unitOf (← str j "v")
    pure (Json.mkObj [("ok", oRats ((← rats j "x").map (TimeConv.conv u v)))])
  | "parse_name" =>
    pure (Json.mkObj [("ok", .arr ((← strs j "names").map fun n => match TimeConv.parseName n with
      | some p => Json.arr #[.str p.base, .str p.unit.toString, .str p.agg]
      | none => Json.null).toArray)])
  | "tc_create" => opTcCreate j
  | "date" => pure (dateInfo (← int j "ord"))
  | "grouped" => opGrouped j
  | "sum_by_p_id" => pure (out oRats (Agg.sumByPid (← rats j "col") (← ints j "ptr") (← ints j "p_id")))
  | "join" => pure (out oRats (Agg.joinNumpy (← ints j "fk") (← ints j "pk") (← rats j "target") (← rat j "dflt")))
  | "pair_id" => pure (out oInts (.ok (Groupings.pairId (← ints j "p_id") (← ints j "partner"))))
  | "sn_id" => pure (out oInts (Groupings.snId (← ints j "p_id") (← ints j "partner") (← bools j "gv")))
  | "bg_id" => pure (out oInts (.ok (Groupings.bgId (← ints j "fg_id") (← ints j "alter") (← bools j "eigen"))))
  | "wthh_id" => pure (out oInts (.ok (Groupings.wthhId (← ints j "hh_id") (← bools j "v1") (← bools j "v2"))))
  | "fg_id" => pure (out oInts (Groupings.fgId (← bool j "repaired") (← opPersons j)))
  | _ => throw s!"unknown op {op}"

end GV.Drv
