import GettsimVerif.Driver
import GettsimVerif.DriverLang
/- Dispatch of the line protocol to the executable models. -/
open Lean GV

namespace GV.Drv

def opGrouped (j : Json) : Except String Json := do
  let f ← str j "f"
  let gid ← ints j "gid"
  match f with
  | "sum" => pure (out oRats (Agg.groupedSum (← rats j "col") gid))
  | "mean" => pure (out oRats (Agg.groupedMean (← rats j "col") gid))
  | "max" => pure (out oRats (Agg.groupedMax (← rats j "col") gid))
  | "min" => pure (out oRats (Agg.groupedMin (← rats j "col") gid))
  | "any" => pure (out oBools (Agg.groupedAny (← bools j "col") gid))
  | "all" => pure (out oBools (Agg.groupedAll (← bools j "col") gid))
  | "count" => pure (out oInts (Agg.groupedCount gid))
  | _ => throw s!"unknown aggregation {f}"

def opPersons (j : Json) : Except String (List Groupings.Person) := do
  let pid ← ints j "p_id"; let hh ← ints j "hh_id"; let al ← ints j "alter"
  let pa ← ints j "partner"; let e1 ← ints j "e1"; let e2 ← ints j "e2"
  pure <| (List.range pid.length).map fun i =>
    { pid := pid.getD i 0, hh := hh.getD i 0, alter := al.getD i 0,
      partner := pa.getD i (-1), e1 := e1.getD i (-1), e2 := e2.getD i (-1) }

/-- driver state: data loaded once and used by later operations -/
structure St where
  raw : Params.Raw := []
  copied : List String := []
  groups : List String := []
  reg : List Params.FnEntry := []
  envs : List (String × Lang.Val) := []     -- named parameter trees for `run_fun`

def strs (j : Json) (k : String) : Except String (List String) := do (← jArr (← field j k)).mapM jStr

def opLoadRaw (j : Json) : Except String St := do
  let groups ← jArr (← field j "raw")
  let raw ← groups.mapM fun g => match g with
    | .arr #[.str n, y] => do pure (n, ← jY y)
    | _ => throw "bad raw group"
  let reg ← (← jArr (← field j "registry")).mapM fun e => do
    pure ({ module := ← str e "module", fname := ← str e "fname", dagName := ← str e "dag",
            timeDependent := ← bool e "td", start := ← int e "start", stop := ← int e "stop" } : Params.FnEntry)
  pure { raw := raw, copied := ← strs j "copied", groups := ← strs j "groups", reg := reg }

def dateInfo (o : Int) : Json :=
  let (y, m, d) := Dates.toYMD o
  Json.mkObj [("ymd", oInts [y, m, d]), ("jan1", oInts [Dates.jan1 o]), ("subYear", oInts [Dates.subYear o]),
              ("back", oInts [Dates.ofYMD y m d])]

def statefulOp (st : St) (op : String) (j : Json) : Except String (Option (St × Json)) := do
  match op with
  | "load_raw" => let st' ← opLoadRaw j; pure (some (st', Json.mkObj [("ok", .str "loaded")]))
  | "env" =>
    let r := Params.env st.copied st.groups st.raw 200 (← int j "date")
    pure (some (st, out oY r))
  | "group" =>
    let r := Params.loadGroup st.copied st.raw 200 (← int j "date") (← str j "group") none
    pure (some (st, out (fun kvs => oY (.dict kvs)) r))
  | "set_trees" =>
    let kvs ← (← jArr (← field j "trees")).mapM fun kv => match kv with
      | .arr #[.str n, y] => do pure (n, Lang.Val.tree (← jY y))
      | _ => throw "bad tree entry"
    pure (some ({ st with envs := kvs }, Json.mkObj [("ok", .str "stored")]))
  | "run_rule" =>
    -- {"fun": F, "fixed": [[argname, treename]], "rows": [[vals for the remaining args in order]]}
    let f ← jFun (← field j "fun")
    let fixed ← (← jArr (← field j "fixed")).mapM fun kv => match kv with
      | .arr #[.str a, .str t] => match st.envs.find? (·.1 = t) with
        | some (_, v) => pure (a, v)
        | none => throw s!"unknown tree {t}"
      | _ => throw "bad fixed entry"
    let free := f.args.filter fun a => !(fixed.any (·.1 = a))
    let rows ← (← jArr (← field j "rows")).mapM fun r => do (← jArr r).mapM jVal
    let res := rows.map fun vals =>
      let env : List (String × Lang.Val) := free.zip vals ++ fixed
      let args := f.args.map fun a => (env.find? (·.1 = a)).map (·.2) |>.getD Lang.Val.none
      match Lang.runFun f args with
      | .ok v => Json.mkObj [("ok", oVal v)]
      | .error e => Json.mkObj [("err", .str (toString e))]
    pure (some (st, .arr res.toArray))
  | "functions" =>
    let fs := Params.functionsFor st.reg (← int j "date")
    pure (some (st, Json.mkObj [("ok", .arr (fs.map fun (n, e) =>
      Json.arr #[.str n, .str e.module, .str e.fname]).toArray)]))
  | _ => pure none

def optRat (j : Json) (k : String) : Except String (Option Rat) :=
  match j.getObjVal? k with
  | .ok .null => pure none
  | .ok v => do pure (some (← jRat v))
  | .error _ => pure none

def optStr (j : Json) (k : String) : Except String (Option String) :=
  match j.getObjVal? k with
  | .ok (.str s) => pure (some s)
  | _ => pure none

def unitOf (s : String) : Except String TimeConv.TUnit :=
  match s.toList with
  | [c] => match TimeConv.TUnit.ofChar? c with
    | some u => pure u
    | none => throw "bad unit"
  | _ => throw "bad unit"

def opRound (j : Json) : Except String Json := do
  let xs ← rats j "x"
  let spec : Option Round.Spec ←
    if (← bool j "has_spec") then
      pure (some { base := ← optRat j "base", direction := ← optStr j "direction", off := ← optRat j "off" })
    else pure none
  let on ← bool j "rounding"
  let hk ← bool j "has_key"
  pure (out oRats (xs.mapM fun x => Round.applyRounding on hk spec x))

def opTcCreate (j : Json) : Except String Json := do
  let fs ← (← jArr (← field j "functions")).mapM fun f => match f with
    | .arr #[.str n, .arr deps] => do pure (n, ← deps.toList.mapM jStr)
    | _ => throw "bad function entry"
  let ds := TimeConv.create fs (← strs j "data_cols")
  pure (Json.mkObj [("ok", .arr (ds.map fun d =>
    Json.arr #[.str d.name, .str d.src, .str d.u.toString, .str d.v.toString]).toArray)])

def jExt (j : Json) : Except String Piecewise.Ext :=
  match j with
  | .str "inf" => pure .posInf
  | .str "-inf" => pure .negInf
  | other => do pure (.fin (← jRat other))

def opPwEval (j : Json) : Except String Json := do
  let thr ← (← jArr (← field j "thresholds")).mapM jExt
  let rates ← (← jArr (← field j "rates")).mapM fun r => do (← jArr r).mapM jRat
  let s : Piecewise.Schedule := { thresholds := thr, rates := rates, intercepts := ← rats j "intercepts" }
  pure (Json.mkObj [("ok", oRats ((← rats j "x").map (Piecewise.eval s)))])

def dispatch (j : Json) : Except String Json := do
  let op ← str j "op"
  match op with
  | "pw_eval" => opPwEval j
  | "transform" => opTransform j
  | "run_fun" => opRunFun j
  | "fun_ok" => opFunOk j
  | "run_arr" => opRunArr j
  | "round" => opRound j
  | "conv" => do
    let u ← unitOf (← str j "u"); let v ← unitOf (← str j "v")
    pure (Json.mkObj [("ok", oRats ((← rats j "x").map (TimeConv.conv u v)))])
  | "parse_name" =>
    pure (Json.mkObj [("ok", .arr ((← strs j "names").map fun n => match TimeConv.parseName n with
      | some p => Json.arr #[.str p.base, .str p.unit.toString, .str p.agg]
      | none => Json.null).toArray)])
  | "tc_create" => opTcCreate j
  | "date" => pure (dateInfo (← int j "ord"))
  | "grouped" => opGrouped j
  | "sum_by_p_id" => pure (out oRats (Agg.sumByPid (← rats j "col") (← ints j "ptr") (← ints j "p_id")))
  | "join" => pure (out oRats (Agg.joinNumpy (← ints j "fk") (← ints j "pk") (← rats j "target") (← rat j "dflt")))
  | "pair_id" => pure (out oInts (.ok (Groupings.pairId (← ints j "p_id") (← ints j "partner"))))
  | "sn_id" => pure (out oInts (Groupings.snId (← ints j "p_id") (← ints j "partner") (← bools j "gv")))
  | "bg_id" => pure (out oInts (.ok (Groupings.bgId (← ints j "fg_id") (← ints j "alter") (← bools j "eigen"))))
  | "wthh_id" => pure (out oInts (.ok (Groupings.wthhId (← ints j "hh_id") (← bools j "v1") (← bools j "v2"))))
  | "fg_id" => pure (out oInts (Groupings.fgId (← bool j "repaired") (← opPersons j)))
  | _ => throw s!"unknown op {op}"

end GV.Drv
