import Lean.Data.Json
import GettsimVerif.Core.Basic
import GettsimVerif.Core.Agg
import GettsimVerif.Core.Groupings
import GettsimVerif.Core.Round
import GettsimVerif.Core.TimeConv
import GettsimVerif.Core.Piecewise
import GettsimVerif.Core.ParamsByDate
/-
Line-protocol driver: one JSON object per input line, one JSON value per output line.
Rationals travel as strings "n/d" (or JSON integers), booleans as JSON booleans.
-/
open Lean GV

namespace GV.Drv

def ratOfString (s : String) : Except String Rat :=
  match s.splitOn "/" with
  | [n] => match n.toInt? with
    | some k => .ok (k : Rat)
    | none => .error s!"bad rational {s}"
  | [n, d] => match n.toInt?, d.toNat? with
    | some k, some m => if m = 0 then .error "zero denominator" else .ok ((k : Rat) / (m : Rat))
    | _, _ => .error s!"bad rational {s}"
  | _ => .error s!"bad rational {s}"

def jRat (j : Json) : Except String Rat :=
  match j with
  | .str s => ratOfString s
  | .num n => if n.exponent = 0 then .ok (n.mantissa : Rat)
              else .ok ((n.mantissa : Rat) / ((10 ^ n.exponent : Nat) : Rat))
  | .bool b => .ok (if b then 1 else 0)
  | _ => .error "rational expected"

def jInt (j : Json) : Except String Int :=
  match j with
  | .num n => if n.exponent = 0 then .ok n.mantissa else .error "int expected"
  | .bool b => .ok (if b then 1 else 0)
  | _ => .error "int expected"

def jBool (j : Json) : Except String Bool :=
  match j with
  | .bool b => .ok b
  | .num n => .ok (n.mantissa ≠ 0)
  | _ => .error "bool expected"

def jStr (j : Json) : Except String String :=
  match j with
  | .str s => .ok s
  | _ => .error "string expected"

def jArr (j : Json) : Except String (List Json) :=
  match j with
  | .arr a => .ok a.toList
  | _ => .error "array expected"

def field (j : Json) (k : String) : Except String Json := j.getObjVal? k

def rats (j : Json) (k : String) : Except String (List Rat) := do (← jArr (← field j k)).mapM jRat
def ints (j : Json) (k : String) : Except String (List Int) := do (← jArr (← field j k)).mapM jInt
def bools (j : Json) (k : String) : Except String (List Bool) := do (← jArr (← field j k)).mapM jBool
def str (j : Json) (k : String) : Except String String := do jStr (← field j k)
def int (j : Json) (k : String) : Except String Int := do jInt (← field j k)
def rat (j : Json) (k : String) : Except String Rat := do jRat (← field j k)
def bool (j : Json) (k : String) : Except String Bool := do jBool (← field j k)

def ratStr (q : Rat) : String := if q.den = 1 then toString q.num else s!"{q.num}/{q.den}"
def oRat (q : Rat) : Json := .str (ratStr q)
def oRats (l : List Rat) : Json := .arr (l.map oRat).toArray
def oInts (l : List Int) : Json := .arr (l.map fun (i : Int) => Json.num (JsonNumber.fromInt i)).toArray
def oBools (l : List Bool) : Json := .arr (l.map Json.bool).toArray

def out {α : Type} (f : α → Json) : Except Err α → Json
  | .ok v => Json.mkObj [("ok", f v)]
  | .error e => Json.mkObj [("err", .str (toString e))]

/-! ### YAML trees: {"q":"n/d"} {"inf":±1} {"s":..} {"b":..} {"null":0} {"date":ord} {"l":[..]} {"d":[[key,val],..]}
keys: {"ks":..} {"ki":n} {"kd":ord} -/

open GV.Yaml in
def jKey (j : Json) : Except String Key :=
  match j.getObjVal? "ks", j.getObjVal? "ki", j.getObjVal? "kd" with
  | .ok (.str s), _, _ => .ok (.s s)
  | _, .ok n, _ => do pure (.i (← jInt n))
  | _, _, .ok n => do pure (.d (← jInt n))
  | _, _, _ => .error "bad key"

open GV.Yaml in
partial def jY (j : Json) : Except String Y :=
  match j with
  | .obj _ =>
    match j.getObjVal? "q" with
    | .ok q => do pure (.num (← jRat q))
    | .error _ =>
    match j.getObjVal? "inf" with
    | .ok n => do pure (if (← jInt n) > 0 then .pinf else .ninf)
    | .error _ =>
    match j.getObjVal? "s" with
    | .ok (.str s) => pure (.str s)
    | _ =>
    match j.getObjVal? "b" with
    | .ok (.bool b) => pure (.bool b)
    | _ =>
    match j.getObjVal? "date" with
    | .ok n => do pure (.date (← jInt n))
    | .error _ =>
    match j.getObjVal? "l" with
    | .ok (.arr xs) => do pure (.list (← xs.toList.mapM jY))
    | _ =>
    match j.getObjVal? "d" with
    | .ok (.arr kvs) => do
      let l ← kvs.toList.mapM fun kv => match kv with
        | .arr #[k, v] => do pure (← jKey k, ← jY v)
        | _ => .error "bad kv"
      pure (.dict l)
    | _ => pure .null
  | _ => .error "bad yaml node"

open GV.Yaml in
def oKey : Key → Json
  | .s v => Json.mkObj [("ks", .str v)]
  | .i v => Json.mkObj [("ki", Json.num (JsonNumber.fromInt v))]
  | .d v => Json.mkObj [("kd", Json.num (JsonNumber.fromInt v))]

open GV.Yaml in
partial def oY : Y → Json
  | .num q => Json.mkObj [("q", .str (ratStr q))]
  | .pinf => Json.mkObj [("inf", Json.num (JsonNumber.fromInt 1))]
  | .ninf => Json.mkObj [("inf", Json.num (JsonNumber.fromInt (-1)))]
  | .str v => Json.mkObj [("s", .str v)]
  | .bool b => Json.mkObj [("b", .bool b)]
  | .null => Json.mkObj [("null", Json.num (JsonNumber.fromInt 0))]
  | .date o => Json.mkObj [("date", Json.num (JsonNumber.fromInt o))]
  | .list xs => Json.mkObj [("l", .arr (xs.map oY).toArray)]
  | .dict kvs => Json.mkObj [("d", .arr (kvs.map fun (k, v) => Json.arr #[oKey k, oY v]).toArray)]

end GV.Drv
