import Lean.Data.Json
import GettsimVerif.Core.Basic
import GettsimVerif.Core.Agg
import GettsimVerif.Core.Groupings
/-
Line-protocol driver: one JSON object per input line, one JSON value per output line.
Rationals travel as strings "n/d" (or JSON integers), booleans as JSON booleans.
-/
open Lean GV

namespace GV.Drv

def ratOfString (s : String) : Except String Rat :=
  match s.splitOn "/" with
  | [n] => match n.toInt? with
    | some k => .ok (k : Rat)
    | none => .error s!"bad rational {s}"
  | [n, d] => match n.toInt?, d.toNat? with
    | some k, some m => if m = 0 then .error "zero denominator" else .ok ((k : Rat) / (m : Rat))
    | _, _ => .error s!"bad rational {s}"
  | _ => .error s!"bad rational {s}"

def jRat (j : Json) : Except String Rat :=
  match j with
  | .str s => ratOfString s
  | .num n => if n.exponent = 0 then .ok (n.mantissa : Rat)
              else .ok ((n.mantissa : Rat) / ((10 ^ n.exponent : Nat) : Rat))
  | .bool b => .ok (if b then 1 else 0)
  | _ => .error "rational expected"

def jInt (j : Json) : Except String Int :=
  match j with
  | .num n => if n.exponent = 0 then .ok n.mantissa else .error "int expected"
  | .bool b => .ok (if b then 1 else 0)
  | _ => .error "int expected"

def jBool (j : Json) : Except String Bool :=
  match j with
  | .bool b => .ok b
  | .num n => .ok (n.mantissa ≠ 0)
  | _ => .error "bool expected"

def jStr (j : Json) : Except String String :=
  match j with
  | .str s => .ok s
  | _ => .error "string expected"

def jArr (j : Json) : Except String (List Json) :=
  match j with
  | .arr a => .ok a.toList
  | _ => .error "array expected"

def field (j : Json) (k : String) : Except String Json := j.getObjVal? k

def rats (j : Json) (k : String) : Except String (List Rat) := do (← jArr (← field j k)).mapM jRat
def ints (j : Json) (k : String) : Except String (List Int) := do (← jArr (← field j k)).mapM jInt
def bools (j : Json) (k : String) : Except String (List Bool) := do (← jArr (← field j k)).mapM jBool
def str (j : Json) (k : String) : Except String String := do jStr (← field j k)
def int (j : Json) (k : String) : Except String Int := do jInt (← field j k)
def rat (j : Json) (k : String) : Except String Rat := do jRat (← field j k)
def bool (j : Json) (k : String) : Except String Bool := do jBool (← field j k)

def ratStr (q : Rat) : String := if q.den = 1 then toString q.num else s!"{q.num}/{q.den}"
def oRat (q : Rat) : Json := .str (ratStr q)
def oRats (l : List Rat) : Json := .arr (l.map oRat).toArray
def oInts (l : List Int) : Json := .arr (l.map fun (i : Int) => Json.num (JsonNumber.fromInt i)).toArray
def oBools (l : List Bool) : Json := .arr (l.map Json.bool).toArray

def out {α : Type} (f : α → Json) : Except Err α → Json
  | .ok v => Json.mkObj [("ok", f v)]
  | .error e => Json.mkObj [("err", .str (toString e))]

end GV.Drv
