import GettsimVerif.Driver
import GettsimVerif.Generated.RulesC17
/- Second driver: evaluation of the *generated* shallow rule definitions (kept apart from the
main driver so that a generated file that no longer elaborates cannot take the other checks down). -/
open Lean GV GV.Drv

namespace GV.DrvGen

def dispatch (j : Json) : Except String Json := do
  let m ← str j "module"
  let name ← str j "name"
  let ns ← rats j "ns"
  let bs ← bools j "bs"
  let r ← match m with
    | "RulesC17" => pure (GV.Gen.RulesC17.dispatch name ns bs)
    | _ => throw s!"unknown module {m}"
  match r with
  | some (.inl q) => pure (Json.mkObj [("ok", oRat q)])
  | some (.inr b) => pure (Json.mkObj [("ok", .bool b)])
  | none => pure (Json.mkObj [("err", .str "unknown rule")])

end GV.DrvGen
