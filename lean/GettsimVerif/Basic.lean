def hello := "world"
