import GettsimVerif.Driver
import GettsimVerif.Core.Lang
import GettsimVerif.Core.Vectorize
import GettsimVerif.Core.ArrSem
/- JSON codec for the deep embedding (rules travel as JSON terms produced by tools/ruleir.py). -/
open Lean GV GV.Lang

namespace GV.Drv

def jVal (j : Json) : Except String Val := do
  let t ← str j "t"
  match t with
  | "int" => pure (.int (← int j "v"))
  | "flt" => pure (.flt (← rat j "v"))
  | "bool" => pure (.bool (← bool j "v"))
  | "inf" => pure (.inf (← bool j "neg"))
  | "str" => pure (.str (← str j "v"))
  | "tree" => pure (.tree (← jY (← field j "v")))
  | "none" => pure .none
  | _ => throw s!"bad value type {t}"

def oVal : Val → Json
  | .int i => Json.mkObj [("t", "int"), ("v", Json.num (JsonNumber.fromInt i))]
  | .flt q => Json.mkObj [("t", "flt"), ("v", .str (ratStr q))]
  | .bool b => Json.mkObj [("t", "bool"), ("v", .bool b)]
  | .inf n => Json.mkObj [("t", "inf"), ("neg", .bool n)]
  | .str s => Json.mkObj [("t", "str"), ("v", .str s)]
  | .tree y => Json.mkObj [("t", "tree"), ("v", oY y)]
  | .none => Json.mkObj [("t", "none")]

def binOpOf : String → Except String BinOp
  | "add" => pure .add | "sub" => pure .sub | "mul" => pure .mul | "div" => pure .div
  | s => throw s!"bad binop {s}"
def binOpStr : BinOp → String
  | .add => "add" | .sub => "sub" | .mul => "mul" | .div => "div"
def cmpOpOf : String → Except String CmpOp
  | "lt" => pure .lt | "le" => pure .le | "gt" => pure .gt | "ge" => pure .ge
  | "eq" => pure .eq | "ne" => pure .ne
  | s => throw s!"bad cmpop {s}"
def cmpOpStr : CmpOp → String
  | .lt => "lt" | .le => "le" | .gt => "gt" | .ge => "ge" | .eq => "eq" | .ne => "ne"

partial def jExpr (j : Json) : Except String Expr := do
  let k ← str j "k"
  let list (key : String) : Except String (List Expr) := do (← jArr (← field j key)).mapM jExpr
  match k with
  | "const" => pure (.const (← jVal j))
  | "name" => pure (.name (← str j "n"))
  | "bin" => pure (.bin (← binOpOf (← str j "op")) (← jExpr (← field j "a")) (← jExpr (← field j "b")))
  | "neg" => pure (.neg (← jExpr (← field j "a")))
  | "cmp" => do
    let rest ← (← jArr (← field j "rest")).mapM fun p => match p with
      | .arr #[.str op, e] => do pure (← cmpOpOf op, ← jExpr e)
      | _ => throw "bad cmp pair"
    pure (.cmp (← jExpr (← field j "first")) rest)
  | "boolop" => pure (.boolop (← bool j "and") (← list "args"))
  | "not" => pure (.not (← jExpr (← field j "a")))
  | "ifexp" => pure (.ifexp (← jExpr (← field j "c")) (← jExpr (← field j "a")) (← jExpr (← field j "b")))
  | "call" => pure (.call (← str j "f") (← list "args"))
  | "mcall" => pure (.mcall (← str j "f") (← list "args"))
  | "sub" => pure (.sub (← jExpr (← field j "e")) (← jExpr (← field j "idx")))
  | "in" => pure (.isIn (← jExpr (← field j "e")) (← list "items") (← bool j "neg"))
  | "opaque" => pure (.opaque (← str j "w"))
  | _ => throw s!"bad expr kind {k}"

partial def oExpr : Expr → Json
  | .const v => (oVal v).setObjVal! "k" "const"
  | .name n => Json.mkObj [("k", "name"), ("n", .str n)]
  | .bin op a b => Json.mkObj [("k", "bin"), ("op", .str (binOpStr op)), ("a", oExpr a), ("b", oExpr b)]
  | .neg a => Json.mkObj [("k", "neg"), ("a", oExpr a)]
  | .cmp f rest => Json.mkObj [("k", "cmp"), ("first", oExpr f),
      ("rest", .arr (rest.map fun (op, e) => Json.arr #[.str (cmpOpStr op), oExpr e]).toArray)]
  | .boolop a args => Json.mkObj [("k", "boolop"), ("and", .bool a), ("args", .arr (args.map oExpr).toArray)]
  | .not a => Json.mkObj [("k", "not"), ("a", oExpr a)]
  | .ifexp c a b => Json.mkObj [("k", "ifexp"), ("c", oExpr c), ("a", oExpr a), ("b", oExpr b)]
  | .call f args => Json.mkObj [("k", "call"), ("f", .str f), ("args", .arr (args.map oExpr).toArray)]
  | .mcall f args => Json.mkObj [("k", "mcall"), ("f", .str f), ("args", .arr (args.map oExpr).toArray)]
  | .sub e i => Json.mkObj [("k", "sub"), ("e", oExpr e), ("idx", oExpr i)]
  | .isIn e items n => Json.mkObj [("k", "in"), ("e", oExpr e), ("items", .arr (items.map oExpr).toArray), ("neg", .bool n)]
  | .opaque w => Json.mkObj [("k", "opaque"), ("w", .str w)]

partial def jStmt (j : Json) : Except String Stmt := do
  let k ← str j "k"
  let block (key : String) : Except String (List Stmt) := do (← jArr (← field j key)).mapM jStmt
  match k with
  | "assign" => pure (.assign (← str j "x") (← jExpr (← field j "e")))
  | "aug" => pure (.aug (← str j "x") (← binOpOf (← str j "op")) (← jExpr (← field j "e")))
  | "ret" => pure (.ret (← jExpr (← field j "e")))
  | "if" => pure (.ite (← jExpr (← field j "c")) (← block "body") (← block "orelse"))
  | "expr" => pure (.expr (← jExpr (← field j "e")))
  | "other" => pure (.other (← str j "w"))
  | _ => throw s!"bad stmt kind {k}"

partial def oStmt : Stmt → Json
  | .assign x e => Json.mkObj [("k", "assign"), ("x", .str x), ("e", oExpr e)]
  | .aug x op e => Json.mkObj [("k", "aug"), ("x", .str x), ("op", .str (binOpStr op)), ("e", oExpr e)]
  | .ret e => Json.mkObj [("k", "ret"), ("e", oExpr e)]
  | .ite c b o => Json.mkObj [("k", "if"), ("c", oExpr c), ("body", .arr (b.map oStmt).toArray),
      ("orelse", .arr (o.map oStmt).toArray)]
  | .expr e => Json.mkObj [("k", "expr"), ("e", oExpr e)]
  | .other w => Json.mkObj [("k", "other"), ("w", .str w)]

def jFun (j : Json) : Except String FunDef := do
  pure { name := ← str j "name", args := ← (← jArr (← field j "args")).mapM jStr,
         body := ← (← jArr (← field j "body")).mapM jStmt }

def oFun (f : FunDef) : Json :=
  Json.mkObj [("name", .str f.name), ("args", .arr (f.args.map Json.str).toArray),
              ("body", .arr (f.body.map oStmt).toArray)]

def tErrStr : Vectorize.TErr → String
  | .tooManyOperations => "TranslateToVectorizableError:tooManyOperations"
  | .returnWithoutElse => "TranslateToVectorizableError:returnWithoutElse"
  | .unallowedOperation => "TranslateToVectorizableError:unallowedOperation"
  | .tooManyArguments => "TranslateToVectorizableError:tooManyArguments"
  | .crash => "crash"

def opTransform (j : Json) : Except String Json := do
  let f ← jFun (← field j "fun")
  match Vectorize.transform f with
  | .ok g => pure (Json.mkObj [("ok", oFun g)])
  | .error e => pure (Json.mkObj [("err", .str (tErrStr e))])

def opRunFun (j : Json) : Except String Json := do
  let f ← jFun (← field j "fun")
  let rows ← (← jArr (← field j "rows")).mapM fun r => do (← jArr r).mapM jVal
  pure (.arr (rows.map fun args => match Lang.runFun f args with
    | .ok v => Json.mkObj [("ok", oVal v)]
    | .error e => Json.mkObj [("err", .str (toString e))]).toArray)

def jAVal (j : Json) : Except String ArrSem.AVal :=
  match j.getObjVal? "scalar", j.getObjVal? "col" with
  | .ok v, _ => do pure (.scalar (← jVal v))
  | _, .ok (.arr xs) => do
    pure (.col (← xs.toList.mapM fun x => match x with
      | .null => pure none
      | v => do pure (some (← jVal v))))
  | _, _ => throw "bad array value"

def oAVal : ArrSem.AVal → Json
  | .scalar v => Json.mkObj [("scalar", oVal v)]
  | .col vs => Json.mkObj [("col", .arr (vs.map fun p => match p with
      | some v => oVal v
      | none => Json.null).toArray)]

def tyOf : String → Except String VecTy.Ty
  | "num" => pure .num | "bool" => pure .bool | "dyn" => pure .dyn
  | s => throw s!"bad type {s}"

/-- {"fun": F, "tys": [...]} → funOK -/
def opFunOk (j : Json) : Except String Json := do
  let f ← jFun (← field j "fun")
  let tys ← (← jArr (← field j "tys")).mapM fun t => do tyOf (← jStr t)
  pure (Json.mkObj [("ok", .bool (VecTy.funOK tys f))])

/-- {"fun": F, "n": n, "args": [AVal], "transform": bool}: run (the rewritten) function on arrays -/
def opRunArr (j : Json) : Except String Json := do
  let f ← jFun (← field j "fun")
  let n ← int j "n"
  let args ← (← jArr (← field j "args")).mapM jAVal
  let g ← if (← bool j "transform") then
      match Vectorize.transform f with
      | .ok g => pure g
      | .error e => return Json.mkObj [("terr", .str (tErrStr e))]
    else pure f
  match ArrSem.runFunA g args n.toNat with
  | .ok a => pure (Json.mkObj [("ok", oAVal a), ("noAliasedAug", .bool (VecTy.noAliasedAug g))])
  | .error e => pure (Json.mkObj [("err", .str (toString e))])

end GV.Drv
