import GettsimVerif.Driver
import GettsimVerif.DriverOps
open Lean GV GV.Drv

partial def loop (h : IO.FS.Stream) (st : St) : IO Unit := do
  let line ← h.getLine
  if line.isEmpty then return ()
  let (st', res) : St × Json := match Json.parse line with
    | .error e => (st, Json.mkObj [("bad", .str e)])
    | .ok j =>
      match (do let op ← str j "op"; statefulOp st op j) with
      | .ok (some (st', r)) => (st', r)
      | .ok none => (st, match GV.Drv.dispatch j with
        | .ok r => r
        | .error e => Json.mkObj [("bad", .str e)])
      | .error e => (st, Json.mkObj [("bad", .str e)])
  IO.println res.compress
  (← IO.getStdout).flush
  loop h st'

def main : IO Unit := do loop (← IO.getStdin) {}
