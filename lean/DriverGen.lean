import GettsimVerif.DriverGen
open Lean GV GV.Drv

partial def loop (h : IO.FS.Stream) : IO Unit := do
  let line ← h.getLine
  if line.isEmpty then return ()
  let res : Json := match Json.parse line with
    | .error e => Json.mkObj [("bad", .str e)]
    | .ok j => match GV.DrvGen.dispatch j with
      | .ok r => r
      | .error e => Json.mkObj [("bad", .str e)]
  IO.println res.compress
  loop h

def main : IO Unit := do loop (← IO.getStdin)
