-- Root of the `GettsimVerif` library.
import GettsimVerif.Core.Basic
import GettsimVerif.Core.Agg
