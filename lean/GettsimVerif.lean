-- This module serves as the root of the `GettsimVerif` library.
-- Import modules here that should be built as part of the library.
import GettsimVerif.Basic
